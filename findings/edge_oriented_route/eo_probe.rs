//! Demonstration (NOT raised by any check of this suite; see DESIGN.md 9.4 / 9.8): two inputs on which
//! an edge-oriented search returns a route that does not start with the origin edge / end with the
//! destination edge. Place as rust/routee-compass-core/tests/eo_probe.rs and run
//!   cargo test --offline -p routee-compass-core --test eo_probe -- --test-threads 1
//! Observed on the tree at /repo HEAD of round 2: both tests FAIL (routes [0, 1] and [2, 3]).
use routee_compass_core::algorithm::search::direction::Direction;
use routee_compass_core::algorithm::search::search_algorithm::SearchAlgorithm;
use routee_compass_core::algorithm::search::search_instance::SearchInstance;
use routee_compass_core::model::access::default::no_access_model::NoAccessModel;
use routee_compass_core::model::cost::cost_aggregation::CostAggregation;
use routee_compass_core::model::cost::cost_model::CostModel;
use routee_compass_core::model::cost::vehicle::vehicle_cost_rate::VehicleCostRate;
use routee_compass_core::model::frontier::default::no_restriction::NoRestriction;
use routee_compass_core::model::network::edge_id::EdgeId;
use routee_compass_core::model::network::graph::Graph;
use routee_compass_core::model::network::Edge;
use routee_compass_core::model::network::Vertex;
use routee_compass_core::model::state::state_feature::StateFeature;
use routee_compass_core::model::state::state_model::StateModel;
use routee_compass_core::model::termination::termination_model::TerminationModel;
use routee_compass_core::model::traversal::default::distance_traversal_model::DistanceTraversalModel;
use routee_compass_core::model::unit::{Distance, DistanceUnit};
use routee_compass_core::util::compact_ordered_hash_map::CompactOrderedHashMap;
use std::collections::HashMap;
use std::sync::Arc;

fn inst(edges: Vec<Edge>, nv: usize) -> SearchInstance {
    let vertices: Vec<Vertex> = (0..nv).map(|i| Vertex::new(i, 0.0, 0.0)).collect();
    let mut adj = vec![CompactOrderedHashMap::empty(); nv];
    let mut rev = vec![CompactOrderedHashMap::empty(); nv];
    for edge in &edges {
        adj[edge.src_vertex_id.0].insert(edge.edge_id, edge.dst_vertex_id);
        rev[edge.dst_vertex_id.0].insert(edge.edge_id, edge.src_vertex_id);
    }
    let g = Graph { adj: adj.into_boxed_slice(), rev: rev.into_boxed_slice(), edges: edges.into_boxed_slice(), vertices: vertices.into_boxed_slice() };
    let state_model = Arc::new(StateModel::empty().extend(vec![(String::from("distance"), StateFeature::Distance { distance_unit: DistanceUnit::Kilometers, initial: Distance::new(0.0) })]).unwrap());
    let cost_model = CostModel::new(Arc::new(HashMap::from([(String::from("distance"), 1.0)])), Arc::new(HashMap::from([(String::from("distance"), VehicleCostRate::Raw)])), Arc::new(HashMap::new()), CostAggregation::Sum, state_model.clone()).unwrap();
    SearchInstance {
        directed_graph: Arc::new(g),
        state_model: state_model.clone(),
        traversal_model: Arc::new(DistanceTraversalModel::new(DistanceUnit::Meters)),
        access_model: Arc::new(NoAccessModel {}),
        cost_model: Arc::new(cost_model),
        frontier_model: Arc::new(NoRestriction {}),
        termination_model: Arc::new(TerminationModel::IterationsLimit { limit: 100 }),
    }
}

fn route(si: &SearchInstance, o: usize, d: usize) -> Vec<usize> {
    let r = SearchAlgorithm::Dijkstra.run_edge_oriented(EdgeId(o), Some(EdgeId(d)), &serde_json::Value::Null, &Direction::Forward, si).unwrap();
    r.routes[0].iter().map(|et| et.edge_id.0).collect()
}

/// the head of the destination edge is discovered by the inner search: the destination edge is lost
#[test]
fn destination_edge_head_already_in_tree() {
    // a: 0->1 (id 0), 1->3 (id 1), 3->2 (id 2), b: 2->3 (id 3)
    let si = inst(vec![Edge::new(0, 0, 1, 1.0), Edge::new(1, 1, 3, 1.0), Edge::new(2, 3, 2, 1.0), Edge::new(3, 2, 3, 1.0)], 4);
    assert_eq!(route(&si, 0, 3), vec![0, 1, 2, 3]);
}

/// the tail of the origin edge lies on the way: the origin edge is lost
#[test]
fn origin_edge_tail_on_the_way() {
    // a: 0->1 (id 0), 1->0 (id 1), 0->2 (id 2), b: 2->3 (id 3)
    let si = inst(vec![Edge::new(0, 0, 1, 1.0), Edge::new(1, 1, 0, 1.0), Edge::new(2, 0, 2, 1.0), Edge::new(3, 2, 3, 1.0)], 4);
    assert_eq!(route(&si, 0, 3), vec![0, 1, 2, 3]);
}
