"""Replay before reporting: turn CBMC's counterexample for a failing harness into a concrete
`#[test]` (Kani's concrete playback), run it natively against /repo's current tree, and only call
it reproduced when the native run panics as well.

Layout:  /verif/replays/<prop>/<harness>/crate/   scratch copy of the harness crate with the
                                                  generated test added in place
         /verif/replays/<prop>/<harness>.replay.json   what `./check <prop> --replay` consumes
"""
import json
import os
import re
import shutil
import subprocess
import time

import kani_runner

VERIF = kani_runner.VERIF
REPLAYS = os.path.join(VERIF, "replays")


def _san(h):
    return re.sub(r"[^A-Za-z0-9_]+", "_", h)


MAX_REPLAYS = 3


def make_replays(pid, crate, failing):
    """failing: {harness: parsed result}. Up to MAX_REPLAYS counterexamples are generated (one Kani
    invocation, in parallel) and replayed natively; the rest is reported as not replayed."""
    t0 = time.time()
    base = os.path.join(REPLAYS, pid)
    os.makedirs(base, exist_ok=True)
    names = sorted(failing)
    chosen = names[:MAX_REPLAYS]
    results = {n: {"reproduced": False, "path": None, "harness": n, "crate": crate,
                   "note": "not replayed (only the first %d failing harnesses of a run are replayed)" % MAX_REPLAYS}
               for n in names}
    # --concrete-playback is incompatible with --jobs: one Kani process per harness, run concurrently
    # (the build is a no-op after the first one took cargo's lock)
    def gen(n):
        cmd = ["cargo", "kani", "--target-dir", os.path.join(kani_runner.TARGET, crate), "-Z", "unstable-options",
               "-Z", "stubbing", "-Z", "concrete-playback", "--concrete-playback=print", "--exact",
               "--harness-timeout", "3600s", "--harness", n]
        p = subprocess.run(cmd, cwd=kani_runner.crate_dir(crate), env=kani_runner.ENV, stdout=subprocess.PIPE,
                           stderr=subprocess.STDOUT, text=True, errors="replace")
        return " ".join(cmd) + "\n" + p.stdout
    import concurrent.futures
    with kani_runner.Lock(crate):
        with concurrent.futures.ThreadPoolExecutor(max_workers=len(chosen)) as ex:
            outs = list(ex.map(gen, chosen))
    class P:  # noqa
        stdout = "\n".join(outs)
    p = P()
    gen_log = os.path.join(base, "kani-playback-gen.%s.log" % crate)
    with open(gen_log, "w") as f:
        f.write(p.stdout)
    tests = parse_printed_tests(p.stdout)
    for n in chosen:
        mine = [t for t in tests if t["harness"] == n]
        # Kani names a test after a hash of its values and prints each value vector once, so the
        # counterexample of a failing assertion may be printed under a `cover` heading: run them all
        # natively (a cover test that passes natively is harmless), failing-check ones first
        mine = [t for t in mine if t["kind"] != "cover"] + [t for t in mine if t["kind"] == "cover"]
        if not mine:
            results[n]["note"] = "Kani produced no concrete playback test (see %s)" % gen_log
            continue
        rec = {"property": pid, "harness": n, "crate": crate, "failed_checks": failing[n].get("failed_checks"),
               "tests": mine[:12], "created": time.strftime("%Y-%m-%dT%H:%M:%S")}
        native = run_native(rec)
        rec["native"] = native
        rec["wall_s"] = round(time.time() - t0, 1)
        path = os.path.join(base, _san(n) + ".replay.json")
        with open(path, "w") as f:
            json.dump(rec, f, indent=1)
        results[n].update(native)
        results[n]["path"] = path
    return results


def parse_printed_tests(text):
    """blocks printed by --concrete-playback=print:
         /// Test generated for harness `a::b::c`
         ///
         /// Check for `assertion`: "msg"
         #[test] fn kani_concrete_playback_x_123() { let concrete_vals ... kani::concrete_playback_run(concrete_vals, c); }"""
    tests = []
    pat = re.compile(r"/// Test generated for harness `([^`]+)`\s*\n(?:///[^\n]*\n)*?/// Check for `([^`]+)`: ([^\n]*)\n"
                     r"[\s\S]*?#\[test\]\s*\nfn (kani_concrete_playback_\w+)\(\) \{\n([\s\S]*?)\n\}", re.M)
    for m in pat.finditer(text):
        tests.append({"harness": m.group(1), "kind": m.group(2), "check": m.group(3).strip(),
                      "name": m.group(4), "body": m.group(5)})
    return tests


def scratch_crate(rec):
    crate = rec["crate"]
    sdir = os.path.join(kani_runner.TARGET, "replay-src-" + crate)
    if os.path.exists(sdir):
        shutil.rmtree(sdir)
    shutil.copytree(kani_runner.crate_dir(crate), sdir, ignore=shutil.ignore_patterns("target"))
    mod = ["", "#[cfg(kani)]", "mod verif_replay {"]
    names = []
    seen = set()
    for t in rec["tests"]:
        if t["name"] in seen:
            continue
        seen.add(t["name"])
        body = re.sub(r"kani::concrete_playback_run\(concrete_vals, [\w:]+\)",
                      "kani::concrete_playback_run(concrete_vals, crate::%s)" % rec["harness"], t["body"])
        mod.append("    // " + t["kind"] + ": " + t["check"].replace("\n", " "))
        mod.append("    #[test]\n    fn %s() {\n%s\n    }" % (t["name"], body))
        names.append(t["name"])
    mod.append("}")
    with open(os.path.join(sdir, "src", "lib.rs"), "a") as f:
        f.write("\n".join(mod) + "\n")
    return sdir, names


def run_native(rec):
    crate = rec["crate"]
    kani_runner.sync_lockfile(crate)
    sdir, names = scratch_crate(rec)
    env = dict(kani_runner.ENV)
    env["CARGO_TARGET_DIR"] = os.path.join(kani_runner.TARGET, "replay-native-" + crate)
    cmd = ["cargo", "kani", "playback", "-Z", "concrete-playback", "--", "verif_replay::", "--nocapture", "--test-threads", "1"]
    with kani_runner.Lock("replay-native-" + crate):
        p = subprocess.run(cmd, cwd=sdir, env=env, stdout=subprocess.PIPE, stderr=subprocess.STDOUT,
                           text=True, errors="replace")
    log = os.path.join(REPLAYS, rec["property"], _san(rec["harness"]) + ".native-playback.log")
    os.makedirs(os.path.dirname(log), exist_ok=True)
    with open(log, "w") as f:
        f.write(" ".join(cmd) + "\n" + p.stdout)
    n_failed = re.search(r"test result: FAILED\. (\d+) passed; (\d+) failed", p.stdout)
    n_ok = re.search(r"test result: ok\. (\d+) passed", p.stdout)
    res = {"rc": p.returncode, "reproduced": False, "note": "", "log": log}
    if n_failed and int(n_failed.group(2)) >= 1:
        res["reproduced"] = True
        m = re.search(r"panicked at ([^\n]*)\n([^\n]*)", p.stdout)
        res["note"] = ("native panic: " + m.group(1) + " " + m.group(2)) if m else "native test failed"
    elif p.returncode != 0 and re.search(r"running \d+ test", p.stdout) and not n_ok:
        # the test binary died (abort / stack overflow / hang killed) after starting
        res["reproduced"] = True
        res["note"] = "native run aborted (rc=%s)" % p.returncode
    elif n_ok and int(n_ok.group(1)) >= 1:
        res["note"] = "native run passed: the counterexample does not reproduce (encoding or stub differs from the real build)"
    else:
        res["note"] = "native playback did not run the test (rc=%s, see %s)" % (p.returncode, log)
    return res


def replay_file(pid, path):
    rec = json.load(open(path))
    native = run_native(rec)
    print("[replay] %s -> %s" % (rec["harness"], native["note"]))
    if native["reproduced"]:
        print("VIOLATION property=%s replay=%s" % (pid, path))
        return 1
    return 0
