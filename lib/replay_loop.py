"""Replay for the search-loop harness crate (`loop`).

Kani's own concrete playback needs CBMC's complete JSON trace; for the step harnesses that trace is
tens of gigabytes (30 GB resident after 35 minutes, never finished). This module does the same job
with what the harnesses record themselves: every symbolic input of a loop harness is copied, as a raw
64-bit word, into the static array `env::CEX` in a fixed order. For a failing harness we
  1. re-run CBMC on the harness's goto binary for ONE failing property with `--trace` (plain text),
     keeping only the assignments to `CEX[i]` (streamed, nothing else is stored);
  2. emit a `#[test]` that calls the harness's native replay entry (`astar::replay_step` ...) with
     those words;
  3. run it natively with `cargo kani playback` (the same native runner the other crates use). The
     native entry rebuilds the environment and the search state from the words, runs the sliced loop
     body natively with the same callee replacements (hook H5), tries every choice the queue model
     leaves open, and panics iff a harness assertion fails.
Only a counterexample that panics natively is reported as a VIOLATION.
"""
import json
import os
import re
import subprocess
import time

import kani_runner
import replay as replay_mod

CBMC_FLAGS = ["--no-malloc-may-fail", "--no-undefined-shift-check", "--no-signed-overflow-check", "--nan-check",
              "--no-self-loops-to-assumptions", "--no-pointer-primitive-check", "--object-bits", "16",
              "--sat-solver", "cadical"]  # no --slice-formula: the recorded words must stay in the trace

# harness function -> (native replay entry, uses const generics of the harness instance)
ENTRY = {"step": "replay_step", "step_dir": "replay_step", "step_dijkstra": "replay_step_dijkstra", "step_size": "replay_step_size"}


def _harness_info(name):
    """reads unwind bound and the instantiated body `fn::<NV, NE>()` of a `stubs!` harness"""
    src = open(os.path.join(kani_runner.crate_dir("loop"), "src", "astar.rs")).read()
    short = name.split("::")[-1]
    m = re.search(r"stubs!\(\s*%s\s*,\s*(\d+)\s*,\s*(\w+)::<(\d+),\s*(\d+)>\([^)]*\)\s*\)" % re.escape(short), src)
    if not m:
        return None
    return {"unwind": int(m.group(1)), "fn": m.group(2), "nv": int(m.group(3)), "ne": int(m.group(4))}


def _goto_binary(name):
    short = name.split("::")[-1]
    root = os.path.join(kani_runner.TARGET, "loop", "kani")
    best = None
    for d, _, files in os.walk(root):
        for f in files:
            if f.endswith("%d%s.out" % (len(short), short)):
                p = os.path.join(d, f)
                if best is None or os.path.getmtime(p) > os.path.getmtime(best):
                    best = p
    return best


def _property_names(binary, failed_checks):
    """map Kani's failed checks (description, line) to CBMC property names"""
    p = subprocess.run(["cbmc", binary, "--show-properties"], stdout=subprocess.PIPE, stderr=subprocess.DEVNULL, text=True, errors="replace")
    blocks = re.split(r"\n(?=Property )", p.stdout)
    names = []
    for fc in failed_checks or []:
        desc = (fc.get("description") or "").strip().strip('"')
        line = str((fc.get("location") or "").split(":")[-1])
        for b in blocks:
            m = re.match(r"Property (.*):[ \t]*\n", b)
            if not m:
                continue
            if desc and desc in b and (" line %s " % line) in b:
                names.append(m.group(1))
                break
    return names


def _trace_words(binary, unwind, prop, timeout):
    cmd = ["cbmc"] + CBMC_FLAGS + ["--unwind", str(unwind), binary, "--trace", "--property", prop]
    words = {}
    status = None
    proc = subprocess.Popen(cmd, stdout=subprocess.PIPE, stderr=subprocess.DEVNULL, text=True, errors="replace")
    t0 = time.time()
    pat = re.compile(r"3CEX\[(\d+)[ul]*\]=(\d+)[ul]* ")
    try:
        for line in proc.stdout:
            if "CEX" in line:
                m = pat.search(line)
                if m:
                    words[int(m.group(1))] = int(m.group(2))
            elif line.startswith("VERIFICATION"):
                status = line.strip()
            if time.time() - t0 > timeout:
                proc.kill()
                status = "timeout"
                break
    finally:
        proc.wait()
    return words, status, " ".join(cmd)


def make_replays(pid, failing, max_replays=2, timeout=3000):
    base = os.path.join(replay_mod.REPLAYS, pid)
    os.makedirs(base, exist_ok=True)
    results = {n: {"reproduced": False, "path": None, "harness": n, "crate": "loop",
                   "note": "not replayed (only the first %d failing loop harnesses of a run are replayed)" % max_replays}
               for n in failing}
    # cheapest instance first
    order = sorted(failing, key=lambda n: (_harness_info(n) or {"nv": 9, "ne": 9})["nv"] * 10 + (_harness_info(n) or {"ne": 9})["ne"])
    for n in order[:max_replays]:
        info = _harness_info(n)
        binary = _goto_binary(n)
        if not info or not binary or info["fn"] not in ENTRY:
            results[n]["note"] = "loop replay: no native entry / goto binary for this harness"
            continue
        props = _property_names(binary, failing[n].get("failed_checks"))
        if not props:
            results[n]["note"] = "loop replay: failing property not found in the goto binary"
            continue
        t0 = time.time()
        words, status, cmd = _trace_words(binary, info["unwind"], props[0], timeout)
        if not words:
            results[n]["note"] = "loop replay: CBMC returned no counterexample values (%s)" % status
            continue
        n_words = max(words) + 1
        vals = [words.get(i, 0) for i in range(n_words)]
        body = ("        let vals: [u64; %d] = [%s];\n        crate::astar::%s::<%d, %d>(&vals);"
                % (n_words, ", ".join("%du64" % v for v in vals), ENTRY[info["fn"]], info["nv"], info["ne"]))
        rec = {"property": pid, "harness": n, "crate": "loop", "failed_checks": failing[n].get("failed_checks"),
               "cbmc_cmd": cmd, "cbmc_property": props[0], "words": vals, "trace_s": round(time.time() - t0, 1),
               "tests": [{"harness": n, "kind": "assertion", "check": (failing[n].get("reason") or "")[:200],
                          "name": "verif_loop_replay_" + replay_mod._san(n), "body": body}],
               "created": time.strftime("%Y-%m-%dT%H:%M:%S")}
        native = replay_mod.run_native(rec)
        rec["native"] = native
        path = os.path.join(base, replay_mod._san(n) + ".replay.json")
        with open(path, "w") as f:
            json.dump(rec, f, indent=1)
        results[n].update(native)
        results[n]["path"] = path
    return results
