"""Source slicer: re-emits the prologue, the body of the single top-level `loop` and the epilogue of
a Rust function as three functions, from /repo's CURRENT source text, so that ONE iteration of the
real loop body can be executed symbolically from an arbitrary pre-state (inductive step).

The slice is purely syntactic and fails closed: if the function does not have the expected shape
(exactly one top-level `loop { .. }`, no other top-level loops, the expected locals declared before
it) a SliceError is raised and the checks that depend on it are inconclusive.

    fn f(PARAMS) -> RET { PROLOGUE  loop { BODY }  EPILOGUE }

becomes (state = the locals that live across iterations, names and types given by the caller)

    pub struct <S> { pub a: A, pub b: B, .. }
    pub fn <p>_prologue(PARAMS, verif_out: &mut Option<S>) -> RET { PROLOGUE; *verif_out = Some(S{..}); <fallthrough> }
    pub fn <p>_step(PARAMS, verif_in: S, verif_out: &mut Option<S>) -> Result<bool, E>
            { let S{..} = verif_in; let mut verif_exit = true;
              loop { if entered { verif_exit = false; break; } entered = true; BODY }
                                                            // `break` in BODY leaves with exit = true,
                                                            // falling off its end or `continue` with false
              *verif_out = Some(S{..}); Ok(!verif_exit) }    // `?` / `return Err(..)` in BODY propagate
    pub fn <p>_epilogue(PARAMS, verif_in: S) -> RET { let S{..} = verif_in; EPILOGUE }
"""
import re


class SliceError(Exception):
    pass


def _scan(src):
    """yield (index, char, depth-agnostic kind) skipping comments / strings / chars; kind in
    {'code'}; returns list of (i, ch) for code characters only"""
    out = []
    i, n = 0, len(src)
    while i < n:
        c = src[i]
        if src.startswith("//", i):
            j = src.find("\n", i)
            i = n if j < 0 else j
            continue
        if src.startswith("/*", i):
            d, i = 1, i + 2
            while i < n and d:
                if src.startswith("/*", i):
                    d += 1
                    i += 2
                elif src.startswith("*/", i):
                    d -= 1
                    i += 2
                else:
                    i += 1
            continue
        m = re.match(r'b?r(#*)"', src[i:])
        if m and (i == 0 or not (src[i - 1].isalnum() or src[i - 1] == "_")):
            end = src.find('"' + m.group(1), i + len(m.group(0)))
            if end < 0:
                raise SliceError("unterminated raw string")
            i = end + 1 + len(m.group(1))
            continue
        if c == '"':
            i += 1
            while i < n and src[i] != '"':
                i += 2 if src[i] == "\\" else 1
            i += 1
            continue
        if c == "'":
            # char literal or lifetime
            m = re.match(r"'(\\.[^']*|[^'\\])'", src[i:])
            if m:
                i += len(m.group(0))
                continue
            i += 1
            continue
        if not c.isspace():
            out.append((i, c))
        i += 1
    return out


def _match(code, start_pos, open_ch, close_ch):
    """code: list of (i, ch); start_pos: index INTO code of the opening char; returns index into
    code of the matching closing char"""
    d = 0
    for p in range(start_pos, len(code)):
        ch = code[p][1]
        if ch == open_ch:
            d += 1
        elif ch == close_ch:
            d -= 1
            if d == 0:
                return p
    raise SliceError("unbalanced %s%s" % (open_ch, close_ch))


def slice_function(src, fn_name):
    """returns dict(params, ret, prologue, body, epilogue) as source text"""
    m = re.search(r"\bpub\s+fn\s+%s\s*\(" % re.escape(fn_name), src)
    if not m:
        raise SliceError("function %s not found" % fn_name)
    code = _scan(src)
    pos = {i: p for p, (i, _) in enumerate(code)}
    p_open = pos[m.end() - 1]
    p_close = _match(code, p_open, "(", ")")
    params = src[code[p_open][0] + 1:code[p_close][0]].strip()
    # return type up to the body's opening brace
    b_open = None
    for p in range(p_close + 1, len(code)):
        if code[p][1] == "{":
            b_open = p
            break
    if b_open is None:
        raise SliceError("no body")
    ret = src[code[p_close][0] + 1:code[b_open][0]].strip()
    if not ret.startswith("->"):
        raise SliceError("unexpected return type text: %r" % ret)
    ret = ret[2:].strip()
    b_close = _match(code, b_open, "{", "}")
    # walk the body at depth 1 and find top-level loop keywords
    depth = 0
    loops = []
    p = b_open
    while p <= b_close:
        i, ch = code[p]
        if ch in "{([":
            depth += 1
        elif ch in "})]":
            depth -= 1
        elif depth == 1 and (ch.isalpha() or ch == "_"):
            # read identifier
            q = p
            while q + 1 <= b_close and code[q + 1][0] == code[q][0] + 1 and (code[q + 1][1].isalnum() or code[q + 1][1] == "_"):
                q += 1
            prev_ok = p == 0 or code[p - 1][0] != i - 1 or not (code[p - 1][1].isalnum() or code[p - 1][1] == "_")
            word = src[i:code[q][0] + 1]
            if prev_ok and word in ("loop", "while", "for"):
                loops.append((word, p, q))
            p = q
        p += 1
    if len(loops) != 1 or loops[0][0] != "loop":
        raise SliceError("expected exactly one top-level `loop` in %s, found %s" % (fn_name, [w for w, _, _ in loops]))
    _, lp, lq = loops[0]
    if code[lq + 1][1] != "{":
        raise SliceError("`loop` is not followed by a block")
    l_open = lq + 1
    l_close = _match(code, l_open, "{", "}")
    # a label or attribute in front of the loop is not supported (fail closed)
    before = src[code[b_open][0] + 1:code[lp][0]]
    if re.search(r"('\w+\s*:|#\[[^\]]*\])\s*$", before):
        raise SliceError("labelled or attributed loop")
    return {
        "params": params,
        "ret": ret,
        "prologue": before,
        "body": src[code[l_open][0] + 1:code[l_close][0]],
        "epilogue": src[code[l_close][0] + 1:code[b_close][0]],
    }


def _strip_trailing_comma(s):
    return re.sub(r",\s*$", "", s.strip())


def emit(parts, prefix, state_struct, state, err_type, fallthrough):
    """state: list of (name, type, mutable_in_body)"""
    for name, _, _ in state:
        if not re.search(r"\blet\s+(mut\s+)?%s\b" % re.escape(name), parts["prologue"]):
            raise SliceError("expected local `%s` is not declared before the loop" % name)
    params = _strip_trailing_comma(parts["params"])
    fields = ", ".join(n for n, _, _ in state)
    destruct = ", ".join(("mut " + n if mut else n) for n, _, mut in state)
    struct_fields = "\n".join("    pub %s: %s," % (n, t) for n, t, _ in state)
    return f"""// GENERATED by /verif/lib/slice_loop.py from the current source of this file - do not edit.
// prologue / loop body / epilogue of the function, re-emitted verbatim as three functions.

pub struct {state_struct} {{
{struct_fields}
}}

#[allow(unused_mut, unused_variables, unused_assignments, unreachable_code, clippy::all)]
pub fn {prefix}_prologue(
    {params},
    verif_out: &mut Option<{state_struct}>,
) -> {parts['ret']} {{
{parts['prologue']}
    *verif_out = Some({state_struct} {{ {fields} }});
    {fallthrough}
}}

#[allow(unused_mut, unused_variables, unused_assignments, unreachable_code, clippy::all)]
pub fn {prefix}_step(
    {params},
    verif_in: {state_struct},
    verif_out: &mut Option<{state_struct}>,
) -> Result<bool, {err_type}> {{
    let {state_struct} {{ {destruct} }} = verif_in;
    let mut verif_exit = true;
    let mut verif_entered = false;
    loop {{
        // second arrival at the loop head (by falling off the end of the body or by `continue`):
        // the iteration is over and the loop goes on; a `break` in the body leaves with exit = true
        if verif_entered {{
            verif_exit = false;
            break;
        }}
        verif_entered = true;
{parts['body']}
    }}
    *verif_out = Some({state_struct} {{ {fields} }});
    Ok(!verif_exit)
}}

#[allow(unused_mut, unused_variables, unused_assignments, unreachable_code, clippy::all)]
pub fn {prefix}_epilogue(
    {params},
    verif_in: {state_struct},
) -> {parts['ret']} {{
    let {state_struct} {{ {destruct} }} = verif_in;
{parts['epilogue']}
}}
"""


A_STAR_STATE = [
    ("costs", "InternalPriorityQueue<VertexId, ReverseCost>", True),
    ("traversal_costs", "HashMap<VertexId, Cost>", True),
    ("solution", "HashMap<VertexId, SearchTreeBranch>", True),
    ("initial_state", "Vec<crate::model::traversal::state::state_variable::StateVar>", False),
    ("start_time", "std::time::Instant", False),
    ("iterations", "u64", True),
]


def generate_a_star(repo):
    path = repo + "/rust/routee-compass-core/src/algorithm/search/a_star/a_star_algorithm.rs"
    src = open(path).read()
    parts = slice_function(src, "run_a_star")
    return emit(parts, "verif_a_star", "VerifAStarState", A_STAR_STATE, "SearchError",
                "Ok(SearchResult::default())")


if __name__ == "__main__":
    import sys
    repo = sys.argv[1] if len(sys.argv) > 1 else "/repo"
    out = sys.argv[2] if len(sys.argv) > 2 else "/dev/stdout"
    text = generate_a_star(repo)
    with open(out, "w") as f:
        f.write(text)
