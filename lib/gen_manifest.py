#!/usr/bin/env python3
"""writes /verif/MANIFEST.json from lib/registry.py + lib/manifest_meta.py (claims, notes, n/a list)"""
import json, os, sys
HERE = os.path.dirname(os.path.abspath(__file__))
sys.path.insert(0, HERE)
import registry, manifest_meta as M
checks = []
for pid in sorted(registry.PROPS):
    meta = M.CHECKS[pid]
    checks.append({
        "property_id": pid,
        "quick_cmd": "./check %s --tier quick" % pid,
        "thorough_cmd": "./check %s --tier thorough" % pid,
        "evidence_file": "evidence/%s.json" % pid,
        "replay_cmd_template": "./check %s --replay {path}" % pid,
        "engine": "kani",
        "level_claimed": {"category": "model_checking", "text": meta["text"], "design_ref": meta["design_ref"]},
        "level_note": meta["note"],
        "technique": meta["technique"],
    })
man = {
    "version": 1,
    "setup_cmd": "./check --setup",
    "hooks": M.HOOKS,
    "engines": [{"name": "kani", "path": "check", "serves_properties": sorted(registry.PROPS),
                 "kind_free_text": "Kani 0.68 / CBMC 6.11 / CaDiCaL bounded model checking of the compiled repository code through out-of-tree harness crates (harness/*) with path dependencies on /repo/rust/*"}],
    "checks": checks,
    "notes": M.NOTES,
    "not_applicable": [{"property_id": k, "reason": v} for k, v in sorted(M.NOT_APPLICABLE.items()) if k not in registry.PROPS],
}
json.dump(man, open(os.path.join(os.path.dirname(HERE), "MANIFEST.json"), "w"), indent=1)
print("MANIFEST.json: %d checks, %d not applicable" % (len(checks), len(man["not_applicable"])))
