"""Run Kani harnesses of one out-of-tree harness crate against /repo's current tree and parse the
results from Kani's own JSON export. No verdict is ever invented here: a harness counts as
  pass          - CBMC returned SUCCESSFUL, every `kani::cover!` came back SATISFIED
  fail          - CBMC returned a counterexample for an assertion / panic / arithmetic check
  inconclusive  - timeout, out of memory, CBMC error, unwinding-assertion failure, unsatisfied
                  cover (vacuous harness), harness missing from the output, build error
"""
import fcntl
import json
import os
import re
import shutil
import subprocess
import sys
import time

VERIF = os.path.dirname(os.path.dirname(os.path.abspath(__file__)))
REPO = os.environ.get("VERIF_REPO", "/repo")
TARGET = os.path.join(VERIF, "target")

ENV = dict(os.environ)
ENV.update({
    "CARGO_NET_OFFLINE": "true",
    "CARGO_TERM_COLOR": "never",
})
# the harness crates always build with Kani's own pinned toolchain
ENV.pop("RUSTUP_TOOLCHAIN", None)
ENV.pop("RUSTFLAGS", None)


def crate_dir(crate):
    return os.path.join(VERIF, "harness", crate)


GEN = os.path.join(VERIF, "harness", "gen")
A_STAR_STEP = os.path.join(GEN, "a_star_step.rs")
ENV["VERIF_A_STAR_STEP"] = A_STAR_STEP


def prepare(crate):
    """per-crate preparation before a build. crate `loop`: regenerate the prologue / loop body /
    epilogue functions of run_a_star from /repo's CURRENT source text (source slicer). Returns an
    error string if the source no longer has the sliceable shape (fail closed), else None."""
    if crate != "loop":
        return None
    import slice_loop
    os.makedirs(GEN, exist_ok=True)
    try:
        text = slice_loop.generate_a_star(REPO)
    except (slice_loop.SliceError, OSError) as e:
        return "source slicer: %s" % e
    old = open(A_STAR_STEP).read() if os.path.exists(A_STAR_STEP) else None
    if old != text:
        with open(A_STAR_STEP, "w") as f:
            f.write(text)
    return None


def sync_lockfile(crate):
    """dependency versions are the repository's: copy its lock file on every run"""
    src = os.path.join(REPO, "rust", "Cargo.lock")
    dst = os.path.join(crate_dir(crate), "Cargo.lock")
    if os.path.exists(src):
        shutil.copyfile(src, dst)


class Lock:
    def __init__(self, crate):
        os.makedirs(TARGET, exist_ok=True)
        self.path = os.path.join(TARGET, f".{crate}.lock")

    def __enter__(self):
        self.f = open(self.path, "w")
        fcntl.flock(self.f, fcntl.LOCK_EX)
        return self

    def __exit__(self, *a):
        fcntl.flock(self.f, fcntl.LOCK_UN)
        self.f.close()


def kani_cmd(crate, filters, jobs, harness_timeout, extra=None, export=None, target_dir=None, exact=False):
    cmd = ["cargo", "kani", "--target-dir", target_dir or os.path.join(TARGET, crate),
           "-Z", "unstable-options", "-Z", "stubbing", "--output-format", "terse"]
    if jobs and jobs > 1:
        cmd += ["-j", str(jobs)]
    if harness_timeout:
        cmd += ["--harness-timeout", f"{int(harness_timeout)}s"]
    if export:
        cmd += ["--export-json", export]
    if exact:
        cmd += ["--exact"]
    for f in filters:
        cmd += ["--harness", f]
    if extra:
        cmd += extra
    return cmd


def run(crate, filters, jobs=8, harness_timeout=300, outer_timeout=3600, mem_gb=None, log_path=None,
        extra=None, exact=False):
    """returns dict(build_ok, harnesses={name: {...}}, raw_log, wall_s, cmd)"""
    sync_lockfile(crate)
    perr = prepare(crate)
    if perr:
        return {"cmd": "(not run)", "rc": 2, "wall_s": 0.0, "outer_timeout": False, "raw_log": perr,
                "harnesses": {}, "build_ok": False, "build_error": perr}
    import threading
    export = os.path.join(TARGET, f".export-{crate}-{os.getpid()}-{threading.get_ident()}-{int(time.time()*1000)%100000}.json")
    os.makedirs(TARGET, exist_ok=True)
    if os.path.exists(export):
        os.remove(export)
    cmd = kani_cmd(crate, filters, jobs, harness_timeout, extra=extra, export=export, exact=exact)
    pre = ""
    if mem_gb:
        pre = f"ulimit -v {int(mem_gb * 1024 * 1024)}; "
    shell = pre + "exec " + " ".join(_q(c) for c in cmd)
    t0 = time.time()
    with Lock(crate):
        proc = subprocess.Popen(["bash", "-c", shell], cwd=crate_dir(crate), env=ENV, stdout=subprocess.PIPE,
                                stderr=subprocess.STDOUT, text=True, errors="replace", start_new_session=True)
        try:
            out, _ = proc.communicate(timeout=outer_timeout)
            rc, timed_out = proc.returncode, False
        except subprocess.TimeoutExpired:
            # kill the whole process group (cargo-kani -> kani-driver -> cbmc ...)
            try:
                os.killpg(proc.pid, 9)
            except ProcessLookupError:
                pass
            out, _ = proc.communicate()
            rc, timed_out = -9, True
    wall = time.time() - t0
    if log_path:
        os.makedirs(os.path.dirname(log_path), exist_ok=True)
        with open(log_path, "w") as f:
            f.write("$ " + shell + "\n" + out)
    res = {"cmd": shell, "rc": rc, "wall_s": wall, "outer_timeout": timed_out, "raw_log": out,
           "harnesses": {}, "build_ok": True, "build_error": None}
    if re.search(r"^error(\[E\d+\])?:", out, re.M) and "Checking harness" not in out and not os.path.exists(export):
        res["build_ok"] = False
        m = re.search(r"^error.*(?:\n.*){0,12}", out, re.M)
        res["build_error"] = m.group(0) if m else "build failed"
        return res
    data = None
    if os.path.exists(export):
        try:
            data = json.load(open(export))
        except Exception as e:  # truncated export
            res["export_error"] = str(e)
        os.remove(export)
    res["harnesses"] = parse(data, out)
    return res


def _q(s):
    if re.match(r"^[A-Za-z0-9_:=/.,+-]+$", s):
        return s
    return "'" + s.replace("'", "'\\''") + "'"


IGNORED_FAIL_CATEGORIES = set()


def parse(data, log):
    """merge Kani's JSON export (authoritative when present) with the terse log (timeouts)"""
    hs = {}
    started = re.findall(r"Checking harness ([\w:]+)\.\.\.", log)
    for name in started:
        hs[name] = {"status": "inconclusive", "reason": "no result reported", "checks": 0, "passed": 0,
                    "covers": 0, "covers_satisfied": 0, "failed_checks": [], "functions": [],
                    "time_s": None, "solver_s": None}
    # failures named by the summary (timeouts do not appear in the export's check list)
    for name in re.findall(r"Verification failed for - ([\w:]+)", log):
        hs.setdefault(name, {"status": "inconclusive", "reason": "failed without detail", "checks": 0,
                             "passed": 0, "covers": 0, "covers_satisfied": 0, "failed_checks": [],
                             "functions": [], "time_s": None, "solver_s": None})
    if not data:
        return hs
    stats = {}
    for c in data.get("cbmc", []) or []:
        stats[c.get("harness_id")] = c.get("cbmc_stats", {}) or {}
    errs = {e.get("harness_id"): e for e in (data.get("error_details") or [])}
    for r in (data.get("verification_results", {}) or {}).get("results", []) or []:
        name = r["harness_id"]
        checks = r.get("checks") or []
        h = hs.setdefault(name, {})
        covers = [c for c in checks if c.get("category") == "cover"]
        other = [c for c in checks if c.get("category") != "cover"]
        failed = [c for c in other if c.get("status") not in ("Success", "Unreachable")]
        unwind_fail = [c for c in failed if "unwinding assertion" in (c.get("description") or "")
                       or c.get("category") == "unwind"]
        real_fail = [c for c in failed if c not in unwind_fail and c.get("status") == "Failure"]
        undetermined = [c for c in failed if c.get("status") not in ("Failure",)]
        cov_unsat = [c for c in covers if c.get("status") != "Satisfied"]
        funcs = sorted({c.get("function") for c in checks
                        if c.get("function") and c.get("function").startswith(("routee_compass", "<routee_compass"))})
        st = stats.get(name, {})
        h.update({
            "checks": len(other), "passed": len([c for c in other if c.get("status") == "Success"]),
            "covers": len(covers), "covers_satisfied": len(covers) - len(cov_unsat),
            "functions": funcs,
            "time_s": (r.get("duration_ms") or 0) / 1000.0,
            "solver_s": st.get("runtime_solver_s") or st.get("runtime_decision_procedure_s"),
            "vccs": st.get("vccs_generated"), "vccs_remaining": st.get("vccs_remaining"),
            "program_steps": st.get("size_program_expression"),
            "failed_checks": [{"function": c.get("function"), "description": c.get("description"),
                               "category": c.get("category"), "status": c.get("status"),
                               "location": "%s:%s" % ((c.get("location") or {}).get("file"),
                                                      (c.get("location") or {}).get("line"))}
                              for c in failed][:20],
        })
        status = r.get("status")
        if status == "Success" and not failed:
            if cov_unsat:
                h["status"] = "inconclusive"
                h["reason"] = "vacuity: cover not satisfied: " + "; ".join(c.get("description", "") for c in cov_unsat)
            elif not other:
                h["status"] = "inconclusive"
                h["reason"] = "no checks generated"
            else:
                h["status"] = "pass"
                h["reason"] = ""
        elif real_fail and not unwind_fail:
            h["status"] = "fail"
            h["reason"] = "; ".join("%s @ %s" % (c.get("description"), (c.get("location") or {}).get("file", "?").split("/")[-1]
                                                    + ":" + str((c.get("location") or {}).get("line")))
                                    for c in real_fail[:4])
        elif unwind_fail:
            h["status"] = "inconclusive"
            h["reason"] = "unwinding bound too small for this code: " + "; ".join(
                (c.get("description") or "") for c in unwind_fail[:3])
        else:
            h["status"] = "inconclusive"
            e = errs.get(name) or {}
            h["reason"] = "no verdict (timeout / out of memory / solver error): %s %s" % (
                status, json.dumps(e)[:200] if e.get("has_errors") else "")
            if undetermined:
                h["reason"] += " undetermined=%d" % len(undetermined)
    # terse-log fallbacks for harnesses that never made it into the export
    for name, h in hs.items():
        if "status" not in h:
            h["status"] = "inconclusive"
            h["reason"] = "no result reported"
    if "CBMC timed out" in log:
        for name, h in hs.items():
            if h["status"] == "inconclusive" and h.get("reason", "").startswith(("no result", "failed without", "no verdict")):
                h["reason"] = "timeout or resource limit (CBMC timed out / no verdict)"
    return hs
