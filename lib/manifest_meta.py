"""human-written part of MANIFEST.json"""
HOOKS = {
    "guard": "cfg(kani) (set only by the Kani compiler) together with the default-off cargo features verif-collections / verif-models / verif-step of routee-compass-core",
    "enable": "cargo kani sets cfg(kani); harness crates vh-core and vh-pt depend on routee-compass-core with features = [\"verif-models\"], vh-loop with [\"verif-step\"] (+ env VERIF_A_STAR_STEP naming the file the source slicer generated); vh-app uses no feature (only the cfg(kani) constructors)",
    "baseline_off_cmd": "cd /repo/rust && cargo test --workspace --no-fail-fast --offline",
    "source_commits": ["6e7b5e1", "fe4aab9", "0a84aa3", "1d6f7b2", "57a839d (reverted by 571d484)", "f5830d0", "5814fd1", "2d7e60e"],
    "add_only": True,
}
NOTES = ("Every check is decided by CBMC (via Kani) over the compiled repository code; exit 2 = inconclusive "
         "(timeout / out of memory / build error / vacuous harness / counterexample that does not reproduce natively) and is "
         "never reported as success. See DESIGN.md.")
TECH = "bounded model checking (Kani/CBMC SAT) of the real functions over symbolic inputs, counterexamples replayed natively"
TECH_LOOP = ("; search loop: induction over loop iterations decided by Kani/CBMC SAT - the loop body of run_a_star is sliced from the current source "
             "text and ONE iteration is symbolically executed from an arbitrary invariant-satisfying search state over an arbitrary small graph")
CHECKS = {
    "C09": dict(
        text=("Every ordered unit pair of the six families is a harness instance; for each, CBMC decides over every finite f64 "
              "in 1e-6..1e12 (both signs) that convert is finite, sign preserving, the identity on equal units (bit exact), within "
              "0.1% of the physical factor (independent SI table) and round-trips within 0.1%; the three derived-quantity "
              "constructors are decided on accept/reject over the whole input plane and on value along two 1-D slices per unit "
              "triple. Bounded by the stated magnitude ranges; not a proof."),
        design_ref="DESIGN.md section 4, C09",
        note=("Trusted: Kani/CBMC float bit-blasting, the harness's physical table. Exact (bit-level) linearity statements and the "
              "full 2-D value check of the constructors timed out and are outside the claim."),
        technique=TECH,
    ),
}
CHECKS["C10"] = dict(
    text=("For each limit kind CBMC decides, over every value of the limit and of the loop's counters, that the call the search loop makes before "
          "every pop returns the explicit 'terminated' error exactly when the documented predicate holds (iterations+1 > limit; tree size > limit; "
          "clock beyond the budget on a scheduled check, with the clock a symbolic monotone variable), never the internal 'unable to explain' error, "
          "never a panic; combined models are the disjunction; the predicate is monotone in the limit. Search loop, by induction over its iterations with an "
          "iteration limit L (any L <= 2^20): the body is entered with iterations <= L, every completed iteration counts exactly one, an iteration entered with iterations >= L returns the "
          "terminated error before anything is expanded - at most L expansion steps, and a limit that is hit is never turned into a route or 'no path'."),
    design_ref="DESIGN.md sections 4 (C10) and 9",
    note=("Trusted: Instant::now stub (arbitrary non-decreasing readings), fmt::format stub, Instant layout transmute; loop: hooks H1/H3/H4/H5. Not decided: solution-size and runtime limits "
          "INSIDE the loop (only the iteration limit is instantiated there), identity of limited/unlimited results, error mapping of combined models (String join intractable), ksp sub-searches."),
    technique=TECH + TECH_LOOP,
)
CHECKS["C13"] = dict(
    text=("CBMC decides for every f64 similarity value and threshold that the default accept-all setting classifies no alternative as too similar and that "
          "threshold functions reject exactly value >= threshold (so accept-all accepts a superset), and for every k / solution size that no stop rule fires "
          "before k routes were found. Kernel-level only: the two ksp drivers are not encoded."),
    design_ref="DESIGN.md section 4, C13",
    note=("Not decided: number, distinctness, ordering, loop-freeness of returned routes, termination of the drivers (Yen's loop), error propagation from spur searches."),
    technique=TECH,
)
CHECKS["C11"] = dict(
    text=("Inductive step on the ordered container behind the state model and the adjacency lists: from a valid pre-state of EVERY representation "
          "(empty, One..Four, N5, N6, N7) one insert with a fully symbolic key and value is decided by CBMC: a new key takes index old_len, a hit keeps "
          "index and replaces the value, old entries are untouched, and get / get_index / get_pair / len / iter agree on the post-state. "
          "Histories of any length within 8 entries are covered step by step; bounded, not a proof."),
    design_ref="DESIGN.md section 4, C11",
    note=("Trusted: hook H1 table model standing in for std HashMap (contract: finite partial function), concrete pre-state keys (symmetry argument). "
          "Not decided: StateModel name-keyed get/set/add beyond what C03 lists, CompactOrderedHashMap::new with duplicate keys, > 8 entries."),
    technique=TECH,
)
CHECKS["C07"] = dict(
    text=("CBMC decides, for concrete model shapes (1-2 features, each leaf rate variant, each leaf network-rate variant, Sum/Mul) and ALL weights, rate parameters, "
          "surcharges, edge ids and previous/next states in the stated ranges, that traversal and access cost are finite and > 0 and the estimate finite and >= 0; "
          "at kernel level that one feature contributes weight x rated change (0.1 percent), exactly nothing for a zero weight or zero rate, with exact sign "
          "structure, that rate variants and lookup tables mean what is documented, and the floor / clip rules exactly."),
    design_ref="DESIGN.md section 4, C07",
    note=("Trusted: hooks H1 (table model) and H2 (CostModel::verif_from_parts), non-recursive stubs of the rate kernels at model level (assume-guarantee; "
          "the real kernels are decided per shape). Not decided: CostModel::new, Combined (nested) rates at any depth, the exact model-level composition rule, bit-exact linearity, EdgeTraversal::total_cost absorption."),
    technique=TECH,
)
CHECKS["C17"] = dict(
    text=("The product iterator behind grid-search expansion is decided shape by shape: the shape space (1..3 axes x 1..3 options, 39 shapes) is enumerated "
          "exhaustively and for each shape CBMC decides, for all element values, that exactly prod(n_i) combinations are produced, combination j being the "
          "mixed-radix decoding of j, then None forever - with every index / overflow check on the way."),
    design_ref="DESIGN.md section 4, C17",
    note="The JSON side of GridSearchPlugin::process is not covered (serde_json objects). Weakest use of the technique in this suite: the shape is enumerated, only element values are solver-decided. Of the 39 shapes the tiers currently run 19 (quick 8; thorough adds those whose first axis has one option): the 20 shapes with 2-3 options on the first axis make the Kani driver die under the memory cap in the thorough run and are outside the claim.",
    technique=TECH + "; shape space enumerated exhaustively",
)
CHECKS["C12"] = dict(
    text=("Two kernels a malformed batch reaches are decided not to panic or run without bound: the product iterator on every degenerate grid (no axes, empty axes; "
          "46 shapes up to 3x3) ends after the right number of combinations, and the inject plugin answers a non-object query (Bool / any u64 Number, any overwrite "
          "policy) with an 'unexpected query structure' error."),
    design_ref="DESIGN.md section 4, C12",
    note="CompassApp::run, every JSON-object based plugin, map matching and the search itself are not covered; this is a kernel-level partial claim.",
    technique=TECH,
)
CHECKS["C04"] = dict(
    text=("For each restriction kind and each pair of vehicle / limit units CBMC decides over all quantities and limits that the edge is usable exactly when the "
          "vehicle quantity, converted with the PHYSICAL factor, does not exceed the limit (outside a 0.1 percent band), that zero axles never pass a per-axle limit, "
          "and that a combined model permits an edge only if every inner model does (errors propagate, never 'usable'); an edge cut by an alternative-route search is never usable. "
          "Search loop, by induction over its iterations: for restrictions that depend on the edge only, a forbidden edge is never traversed and never recorded in the tree, in any reachable state."),
    design_ref="DESIGN.md sections 4 (C04) and 9",
    note=("Road-class, turn-restriction and per-edge restriction table lookups (std hash containers in the app crate) are not covered; the loop induction covers edge-local restrictions only "
          "(a mask per edge id) - restricted TURNS (dependence on the previous edge) are not covered by it. Loop bounds: graphs up to 2 vertices / 1 edge (quick), 3 vertices / 3 edges (thorough)."),
    technique=TECH + TECH_LOOP,
)
CHECKS["C01"] = dict(
    text=("Two kernels of the property are decided: for ANY edge and both search directions the vertex a tree entry is keyed by is the far end and the recorded parent "
          "the near end of the recorded edge; and for an ARBITRARY edge table with an ARBITRARY consistent partial tree (cycles, gaps allowed) over 3-4 vertices the "
          "backtrack returns exactly the contiguous, repeat-free origin-to-destination walk obtained by following parents, or an error - never a malformed route. "
          "Search loop (vertex-oriented run_a_star), by induction over its iterations: in every state the loop reaches and in the returned tree, every entry records a permitted edge that "
          "joins the recorded parent to the entry's vertex in search direction and the parent's cost is strictly smaller, so parents lead to the origin without revisiting a vertex."),
    design_ref="DESIGN.md sections 4 (C01) and 9",
    note=("The core of the property - that the search loop only inserts consistent branches and never closes a parent cycle - is decided by induction over the iterations of the "
          "real loop body (sliced from the source on every run) for EVERY graph with up to 2 vertices / 1-2 edges (quick) and 3 vertices / 3 edges (thorough), any mask, costs, direction, "
          "origin, destination and limit; callees (adjacency lookup, edge traversal, estimate) enter by their contracts (assume-guarantee with C15 / C07). Edge-oriented wrappers and ksp route "
          "concatenation are not covered (two genuine defects of the edge-oriented route assembly were found by reading and confirmed natively, see DESIGN 9.4; no check raises them). "
          "Trusted: hooks H1/H3 table models, H4 slicer, H5 override points."),
    technique=TECH + TECH_LOOP,
)
CHECKS["C03"] = dict(
    text=("Kernels: the turn angle of two edges is the heading difference wrapped into -180..180 (all headings 0..360), classification is total on wrapped angles and follows the "
          "documented sectors (all i16), the delay charged is the table entry of the turn actually taken, in the table's unit; and the state model's unit-aware "
          "add / set / get (s->min, km->mi, kWh->gal) accumulate previous + converted value within 0.2 percent."),
    design_ref="DESIGN.md section 4, C03",
    note=("NOT decided: time = length / table speed (speed traversal model), forward/reverse_traversal composition, route-level accumulation by the search loop, output units, summary. "
          "State-model harnesses use one-feature models with container lookups stubbed and a constant previous accumulator content."),
    technique=TECH,
)
CHECKS["C08"] = dict(
    text=("Kernels: state of charge stays within 0..100 for every capacity and energy in the stated ranges and equals 100*(start-used)/capacity within 0.1 percent when not clamped "
          "(capacity pinned per instance); the prediction record returns rate x adjustment x distance within 0.2 percent in the rate's own energy unit with the sign of the rate "
          "(regeneration stays negative), for a prediction model returning an arbitrary rate."),
    design_ref="DESIGN.md section 4, C08",
    note="NOT decided: BEV / ICE / PHEV state updates (by-name state model access, no verdict), PHEV fuel switching, starting charge rejection, cache, additivity along a route.",
    technique=TECH,
)
CHECKS["C14"] = dict(
    text=("Kernels: the cell lookup returns a cell containing the target for every strictly increasing axis of length 2-4; 1-D strategies return the table value at grid points and a "
          "neighbour between them; the 2-D interpolator returns the table value exactly at every grid point of a pinned 3 x 3 grid with symbolic values; points outside the grid or of "
          "the wrong dimension are rejected without panic; the speed/grade model's predict never fails for ANY finite speed and grade (inputs are snapped to the grid boundary)."),
    design_ref="DESIGN.md section 4, C14",
    note="NOT decided: the blend arithmetic in general (corner range for arbitrary points, 3-D grid points, multilinear exactness, continuity), N-D, bundled models. Trusted: hook H2 constructor.",
    technique=TECH,
)
CHECKS["C15"] = dict(
    text=("From the container inwards: every id lookup of a Graph (edge, vertex, end points, triplet, incident vertex) returns the listed row or an error, never a panic, for every id "
          "in and out of range; and the adjacency container <EdgeId, VertexId> is an insertion-ordered map at every degree incl. the representation switch at the fifth edge "
          "(C11's inductive step harnesses in this instantiation)."),
    design_ref="DESIGN.md section 4, C15",
    note="The loader proper (CSV / gzip parsing, counts, side tables) is behind File::open and is NOT covered; Graph::out_edges / in_edges over a filled container did not return (documented attempt).",
    technique=TECH,
)
CHECKS["C05"] = dict(
    text=("Decided by induction over the iterations of the real search loop (run_a_star's loop body, sliced from the current source on every run): for EVERY directed graph with up to "
          "2 vertices / 2 edges (quick) or 3 vertices / 3 edges (thorough), every edge permission mask, cost assignment, direction, origin and optional destination, every state the loop "
          "can reach satisfies an invariant from which CBMC derives at the loop's exits: a search without destination ends with a tree whose vertices are exactly those reachable over "
          "permitted edges (origin excluded); a search with destination puts the destination in the tree only if it is reachable and reports 'no path' only if it is not; the only other "
          "failure is the iteration limit. Bounded in graph size, unbounded in the number of iterations."),
    design_ref="DESIGN.md section 9",
    note=("Trusted: the source slicer (syntactic, fails closed), the table / queue models (hooks H1/H3), contracts of three callees (adjacency lookup = C15, traversal cost finite and > 0 = C07, "
          "estimate >= 0 = C07) installed through hook H5, no floating-point absorption below a cost-so-far of 2^40. NOT decided: 'labelled with its least cost' (optimality), edge-oriented "
          "searches, restrictions depending on the previous edge or on the state, termination without an iteration limit."),
    technique="induction over loop iterations decided by Kani/CBMC SAT (base / step / exit harnesses on the sliced real loop body, symbolic graph and search state); counterexamples replayed natively",
)
CHECKS["C02"] = dict(
    text=("Dijkstra (weight factor 0), vertex-oriented, edge costs independent of how the edge was reached: by induction over the iterations of the real search loop (sliced from the "
          "current source), for EVERY directed graph with 2 vertices and 1 edge (quick) or 2 edges (thorough: parallel, anti-parallel edges and self loops compete), every edge mask, cost assignment, direction, origin and "
          "destination, CBMC decides that closed vertices carry their least cost (Bellman-Ford oracle over the symbolic edge table, bit-exact), hence the destination is reached with "
          "least cost and a search without destination labels every tree vertex with its least cost; the cost accumulated along a tree path equals the label. Partial: A* is not decided."),
    design_ref="DESIGN.md section 9.6",
    note=("Trusted: source slicer, table / queue models (pop returns an arbitrary maximal-priority entry), contracts of three callees (hook H5), no floating-point absorption below 2^40, the "
          "Bellman-Ford fixpoint lemma beyond (2,2). NOT decided: A* with weight factor > 0 (haversine admissibility is trigonometry), weights / rates coming from the query (CostModel::new), "
          "forward == reverse, edge-oriented searches, graphs beyond 3 vertices."),
    technique="induction over loop iterations decided by Kani/CBMC SAT (Dijkstra's invariant on the sliced real loop body against a Bellman-Ford oracle, symbolic graph and search state); counterexamples replayed natively",
)
NOT_APPLICABLE = {
    "C01": "not built yet (planned: backtrack / orientation kernels, DESIGN section 4)",
    "C02": "optimality quantifies over all paths of all graphs and the haversine estimate; the search loop could not be encoded (four encodings, no verdict in 19-25 min) and trigonometric builtins are over-approximated by CBMC",
    "C03": "not built yet (planned kernels, DESIGN section 4)",
    "C04": "not built yet (planned kernels, DESIGN section 4)",
    "C05": "reachability equivalence needs the whole search loop, which could not be encoded",
    "C06": "thread schedules, rayon, serde_json objects and a mutex-guarded LRU: Kani does not model concurrency and cannot execute hashbrown",
    "C07": "not built yet (planned kernels, DESIGN section 4)",
    "C08": "not built yet (planned kernels, DESIGN section 4)",
    "C10": "not built yet (planned kernels, DESIGN section 4)",
    "C11": "not built yet (planned kernels, DESIGN section 4)",
    "C12": "not built yet (planned kernels, DESIGN section 4)",
    "C13": "not built yet (planned kernels, DESIGN section 4)",
    "C14": "not built yet (planned kernels, DESIGN section 4)",
    "C15": "not built yet (planned kernels, DESIGN section 4)",
    "C16": "nearest-neighbour search is rstar's recursive heap structure and the tolerance uses haversine (sin/cos/asin/sqrt), which CBMC over-approximates; nothing sound can be claimed",
    "C17": "not built yet (planned kernels, DESIGN section 4)",
    "C18": "not attempted beyond the design probe class: recursive DFS over std HashSet<VertexId> with symbolic adjacency; the sibling kernels of the same class (backtrack on 3-4 vertices) already need 10-20 minutes and the search loop did not return at all; shrinking to concrete graphs would be enumeration, not solver-based checking",
    "C19": "file handles, Mutex, worker threads, serde_json/CSV formatting: outside what Kani can encode",
    "C20": "attempted and dropped: geometry concatenation (create_route_linestring) with concrete edge-id sequences and symbolic coordinates returned for 1 of 5 instances within 600-1200 s (Vec<Coord>/iterator machinery of geo); everything else in the property is JSON / GeoJSON / WKT / WKB / uuid rendering, which Kani cannot execute (serde_json objects are IndexMap -> hashbrown)",
}
