"""Per-property description of what is run. Harness *names* are never listed here one by one: a
tier is a list of Kani harness filters (module prefixes) and the set of harnesses actually run is
read back from Kani's export, so the counts in the evidence are measured.

Module naming convention inside the harness crates:
    <prop>::q...   quick tier             <prop>::t...  thorough-only
    <prop>::kf...  witness harnesses for known findings (expected to FAIL on the unchanged tree;
                   each is tied to one entry of /verif/known_findings.json)
"""

# jobs: parallel CBMC processes; ht: per-harness timeout (s); mem: address-space cap for the whole
# cargo-kani process tree in GB (per process limit via ulimit -v)
DEFAULT = dict(jobs=16, ht_quick=240, ht_thorough=1500, mem_gb=14)

PROPS = {}


def prop(pid, **kw):
    d = dict(DEFAULT)
    d.update(kw)
    d["id"] = pid
    PROPS[pid] = d


prop(
    "C09",
    runs=[dict(crate="core",
               quick=["c09::q::", "c09::r::", "c09::bq::"],
               thorough=["c09::q::", "c09::r::", "c09::bq::", "c09::bt::"])],
    functions=["DistanceUnit::convert", "TimeUnit::convert", "SpeedUnit::convert", "EnergyUnit::convert",
               "GradeUnit::convert", "WeightUnit::convert", "builders::create_time (Time::create)",
               "builders::create_speed (Speed::create)", "builders::create_energy (Energy::create)",
               "EnergyRateUnit::associated_distance_unit", "EnergyRateUnit::associated_energy_unit"],
    bounds=("value: every finite f64 with 1e-6 <= |x| <= 1e12 (both signs); the unit pair / triple is the concrete "
            "shape of a harness instance and all 77 ordered pairs are instantiated; constructors: accept/reject and sign "
            "over the whole 2-D input plane (|speed| in {0} u [1e-6,1e6], |distance| in {0} u [1e-6,1e9]), value on two "
            "1-D slices per unit triple (one operand symbolic over its range, the other pinned to a per-instance constant)"),
    assumptions=[
        "f64 is bit-precise IEEE-754 (CBMC floatbv); no loops, so no unwinding bound applies",
        "linearity is decided as homogeneity within the property's own 0.1 percent: convert(x) in x*k*(1 +- 1e-3) for one constant k over 18 orders of magnitude; "
        "bit-exact statements convert(2x)==2convert(x), convert(-x)==-convert(x), additivity to 1e-12 are multiplier-equivalence SAT problems and timed out (150-200 s) - outside the claim",
        "energy units: no physical factor is claimed (fuel equivalences are conventions); the reference factor is the implementation's own convert(1.0)",
        "full 2-D value check of create_time/create_speed/create_energy (symbolic / symbolic division compared with an oracle) did not return in 300 s - outside the claim; 1-D slices instead",
        "magnitudes outside the stated ranges (subnormal, overflow ends) are outside the claim",
    ],
    oracle="independent physical table in harness/core/src/c09.rs (SI definitions)",
)

prop(
    "C10",
    runs=[dict(crate="core", quick=["c10::q::"], thorough=["c10::q::", "c10::t::"])],
    functions=["TerminationModel::test", "TerminationModel::terminate_search", "TerminationModel::explain_termination"],
    bounds=("limit, iteration counter, tree size: every u64/usize value (iteration < u64::MAX); runtime limit: start instant any (u32 s, ns), "
            "elapsed-before-call and every clock step any Duration <= 2^20 s, limit any Duration <= 2^21 s; check frequency is a per-instance "
            "constant in {1,3} (quick) + {2,7,10} (thorough); combined models: shapes [iterations,size] and [iterations,[size,runtime f=1]]; unwind 4-5"),
    assumptions=[
        "std::time::Instant::now is stubbed: every read returns the previous reading plus an arbitrary non-negative step (time is a symbolic, monotone variable); Instant values are built by transmute from (i64 secs, u32 nanos), the Linux layout",
        "std::fmt::format is stubbed to return a fixed non-empty string (messages are not the subject)",
        "error mapping (test -> explain_termination) of a COMBINED model is outside the claim: the String join did not return in 1500 s even with concrete counters; for combined models the predicate terminate_search is decided, for leaf kinds the full test() mapping",
        "frequency = 0 (division by zero) is a configuration error outside the property's domain",
        "a symbolic check frequency (u64 % u64) did not finish in the probes: frequency is a concrete shape parameter",
        "that run_a_star calls test(start, tree.len(), iterations) before every pop, and that a limited search returning Ok returns the unlimited result, are read from the loop and NOT decided (the loop could not be encoded)",
    ],
    out=["the search loop's use of the predicate", "identity of limited and unlimited results", "ksp sub-searches"],
    oracle="the documented predicate written in the harness: iterations+1 > limit; size > limit; elapsed > limit on a check turn; combined = disjunction",
)

prop(
    "C13",
    runs=[dict(crate="core", quick=["c13::q::"], thorough=["c13::q::"])],
    functions=["RouteSimilarityFunction::is_similar", "RouteSimilarityFunction::default", "KspTerminationCriteria::terminate_search", "KspQuery::new"],
    bounds="similarity value and threshold: every f64 incl. NaN and infinities; k, solution size: every usize with k <= 2^31; factor <= 2^32; max: every u64",
    assumptions=[
        "both ksp drivers treat is_similar == true as 'reject the alternative' (read from single_via_paths_algorithm.rs and yens_algorithm.rs)",
        "k * factor beyond 2^63 (overflow) is outside the claim",
        "std::fmt::format stubbed in the KspQuery harness",
    ],
    out=["both ksp drivers (loops, hash maps, sub-searches): count, distinctness, ordering, loop-freeness and termination of the returned routes are NOT decided",
         "cosine similarity value (sqrt, hash sets)"],
    oracle="accept-all rejects nothing; threshold rule value >= threshold; stop rule never before k routes",
)
