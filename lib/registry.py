"""Per-property description of what is run. Harness *names* are never listed here one by one: a
tier is a list of Kani harness filters (module prefixes) and the set of harnesses actually run is
read back from Kani's export, so the counts in the evidence are measured.

Module naming convention inside the harness crates:
    <prop>::q...   quick tier             <prop>::t...  thorough-only
    <prop>::kf...  witness harnesses for known findings (expected to FAIL on the unchanged tree;
                   each is tied to one entry of /verif/known_findings.json)
"""

# jobs: parallel CBMC processes; ht: per-harness timeout (s); mem: address-space cap for the whole
# cargo-kani process tree in GB (per process limit via ulimit -v)
DEFAULT = dict(jobs=16, ht_quick=600, ht_thorough=1800, mem_gb=24)

PROPS = {}


def prop(pid, **kw):
    d = dict(DEFAULT)
    d.update(kw)
    d["id"] = pid
    PROPS[pid] = d


prop(
    "C09",
    runs=[dict(crate="core",
               quick=["c09::q::", "c09::r::", "c09::bq::"],
               thorough=["c09::q::", "c09::r::", "c09::bq::", "c09::bt::"])],
    functions=["DistanceUnit::convert", "TimeUnit::convert", "SpeedUnit::convert", "EnergyUnit::convert",
               "GradeUnit::convert", "WeightUnit::convert", "builders::create_time (Time::create)",
               "builders::create_speed (Speed::create)", "builders::create_energy (Energy::create)",
               "EnergyRateUnit::associated_distance_unit", "EnergyRateUnit::associated_energy_unit"],
    bounds=("value: every finite f64 with 1e-6 <= |x| <= 1e12 (both signs); the unit pair / triple is the concrete "
            "shape of a harness instance and all 77 ordered pairs are instantiated; constructors: accept/reject and sign "
            "over the whole 2-D input plane (|speed| in {0} u [1e-6,1e6], |distance| in {0} u [1e-6,1e9]), value on two "
            "1-D slices per unit triple (one operand symbolic over its range, the other pinned to a per-instance constant)"),
    assumptions=[
        "f64 is bit-precise IEEE-754 (CBMC floatbv); no loops, so no unwinding bound applies",
        "linearity is decided as homogeneity within the property's own 0.1 percent: convert(x) in x*k*(1 +- 1e-3) for one constant k over 18 orders of magnitude; "
        "bit-exact statements convert(2x)==2convert(x), convert(-x)==-convert(x), additivity to 1e-12 are multiplier-equivalence SAT problems and timed out (150-200 s) - outside the claim",
        "energy units: no physical factor is claimed (fuel equivalences are conventions); the reference factor is the implementation's own convert(1.0)",
        "full 2-D value check of create_time/create_speed/create_energy (symbolic / symbolic division compared with an oracle) did not return in 300 s - outside the claim; 1-D slices instead",
        "magnitudes outside the stated ranges (subnormal, overflow ends) are outside the claim",
    ],
    oracle="independent physical table in harness/core/src/c09.rs (SI definitions)",
)

prop(
    "C10",
    runs=[dict(crate="core", quick=["c10::q::"], thorough=["c10::q::", "c10::t::"])],
    functions=["TerminationModel::test", "TerminationModel::terminate_search", "TerminationModel::explain_termination"],
    bounds=("limit, iteration counter, tree size: every u64/usize value (iteration < u64::MAX); runtime limit: start instant any (u32 s, ns), "
            "elapsed-before-call and every clock step any Duration <= 2^20 s, limit any Duration <= 2^21 s; check frequency is a per-instance "
            "constant in {1,3} (quick) + {2,7,10} (thorough); combined models: shapes [iterations,size] and [iterations,[size,runtime f=1]]; unwind 4-5"),
    assumptions=[
        "std::time::Instant::now is stubbed: every read returns the previous reading plus an arbitrary non-negative step (time is a symbolic, monotone variable); Instant values are built by transmute from (i64 secs, u32 nanos), the Linux layout",
        "std::fmt::format is stubbed to return a fixed non-empty string (messages are not the subject)",
        "error mapping (test -> explain_termination) of a COMBINED model is outside the claim: the String join did not return in 1500 s even with concrete counters; for combined models the predicate terminate_search is decided, for leaf kinds the full test() mapping",
        "frequency = 0 (division by zero) is a configuration error outside the property's domain",
        "a symbolic check frequency (u64 % u64) did not finish in the probes: frequency is a concrete shape parameter",
        "that run_a_star calls test(start, tree.len(), iterations) before every pop, and that a limited search returning Ok returns the unlimited result, are read from the loop and NOT decided (the loop could not be encoded)",
    ],
    out=["the search loop's use of the predicate", "identity of limited and unlimited results", "ksp sub-searches"],
    oracle="the documented predicate written in the harness: iterations+1 > limit; size > limit; elapsed > limit on a check turn; combined = disjunction",
)

prop(
    "C13",
    runs=[dict(crate="core", quick=["c13::q::"], thorough=["c13::q::"])],
    functions=["RouteSimilarityFunction::is_similar", "RouteSimilarityFunction::default", "KspTerminationCriteria::terminate_search", "KspQuery::new"],
    bounds="similarity value and threshold: every f64 incl. NaN and infinities; k, solution size: every usize with k <= 2^31; factor <= 2^32; max: every u64",
    assumptions=[
        "both ksp drivers treat is_similar == true as 'reject the alternative' (read from single_via_paths_algorithm.rs and yens_algorithm.rs)",
        "k * factor beyond 2^63 (overflow) is outside the claim",
        "std::fmt::format stubbed in the KspQuery harness",
    ],
    out=["both ksp drivers (loops, hash maps, sub-searches): count, distinctness, ordering, loop-freeness and termination of the returned routes are NOT decided",
         "cosine similarity value (sqrt, hash sets)"],
    oracle="accept-all rejects nothing; threshold rule value >= threshold; stop rule never before k routes",
)

prop(
    "C11",
    runs=[dict(crate="core", quick=["c11::q::", "c03::s1::set_get"], thorough=["c11::q::", "c11::qi::", "c03::s1::"])],
    functions=["CompactOrderedHashMap::{empty, insert, get, get_index, get_pair, len, is_empty, contains_key, iter, indexed_iter}",
               "CompactOrderedHashMapIter::next"],
    bounds=("one insert(k, v) with k, v any usize from the valid pre-state of each representation: empty, One, Two, Three, Four, N5, N6, N7 "
            "(pre-state keys concrete and distinct, table slot order scrambled, all values symbolic); table model capacity 8; unwind 40 (mem::swap of the enum in 8-byte chunks)"),
    assumptions=[
        "hook H1: under cfg(kani)+verif-models NEntries holds the fixed-capacity table model of util/verif_collections.rs instead of std HashMap (hashbrown cannot be executed by CBMC); the model is the contract of a map (finite partial function, replace on insert), insertion-ordered iteration",
        "pre-state keys are concrete (keys enter the container code only through ==, so this is a symmetry argument, stated not proved); the inserted key is fully symbolic, covering hit at every position and miss",
        "instantiation <EdgeId, VertexId> (the graph adjacency instantiation); <String, StateFeature> (state model) is covered through the state-model harnesses only where listed",
        "histories longer than one step are covered inductively: every reachable representation up to 7 entries is a pre-state; more than 8 entries is outside the claim",
    ],
    out=["CompactOrderedHashMap::new with duplicate keys", "collect_features (std HashMap + serde_json)", "more than 8 entries"],
    oracle="insertion-ordered map: miss appends at index old_len; hit keeps index, replaces value; old entries untouched; observers agree",
)

prop(
    "C07",
    runs=[dict(crate="core", quick=["c07::q::"], thorough=["c07::q::", "c07::t::"])],
    functions=["CostModel::{traversal_cost, access_cost, cost_estimate} (built with the verification-only constructor CostModel::verif_from_parts)",
               "cost_ops::{calculate_vehicle_costs, calculate_network_traversal_costs, calculate_network_access_costs}",
               "CostAggregation::agg_iter (Sum, Mul)", "VehicleCostRate::map_value", "NetworkCostRate::{traversal_cost, access_cost}",
               "Cost::{enforce_strictly_positive, enforce_non_negative}"],
    bounds=("shapes concrete per harness: n = 1 (quick) and 2 (thorough) features; rate variant per feature in {Zero, Raw, Factor, Offset}; "
            "network rate in {Zero, EdgeLookup(1 entry), EdgeEdgeLookup(1 entry)}; aggregation Sum / Mul. Symbolic: previous/next state any finite f64 in +-1e9, weights, factors, offsets in +-1e6, "
            "surcharges in +-1e9, all edge ids any usize. Formula harnesses pin weight/factor/offset to per-instance constants. unwind 2-5 (loops over features and rate lists; recursion of Combined rates)"),
    assumptions=[
        "hook H2: CostModel::verif_from_parts (cfg(kani) only) fills the private fields directly; CostModel::new (by-name lookups in std HashMaps, zero-weight-sum rejection) is NOT covered",
        "hook H1: lookup tables of NetworkCostRate are the fixed-capacity table model",
        "model-level harnesses replace the recursive kernels VehicleCostRate::map_value and NetworkCostRate::{traversal_cost, access_cost} by non-recursive stubs that are exact for the leaf variants and refuse Combined (assume false); the real kernels are decided separately per shape (assume-guarantee). Reason: a rate read from the model's heap vectors has a discriminant CBMC cannot fold and the recursion is unrolled to the bound in every arm (5-17 GB, no verdict)",
        "'equals weight x rated change' is decided to within 0.1 percent, with zero-weight / zero-rate contributions exactly zero and signs exact; bit-exact equality of products is a multiplier-equivalence SAT problem (no verdict)",
        "Combined vehicle rates and combined network rates are NOT covered, not even one level deep (c07::attempts: the recursion-unwinding assertion cannot be discharged for a rate whose discriminant lives on the heap; larger bounds exceed 5 GB); the exact composition 'vehicle part + surcharge, floored' at model level did not return in 1800 s (the floor / clip helpers are decided exactly, the model-level claim is finite and > 0)",
        "Mul aggregation and n >= 3 features: positivity/finiteness only; linearity in the weights is not decided beyond sign/zero structure and the 0.1 percent formula",
        "EdgeTraversal::total_cost() (access + (total - access)) is not covered here; see C03",
        "costs that are positive but smaller than the 1e-10 floor are accepted (the property asks for strictly positive)",
    ],
    out=["CostModel::new", "Combined rates nested deeper than one level", "EdgeTraversal::total_cost floating-point absorption", "cost model services / JSON configuration in the app crate"],
    oracle="finite and > 0 / >= 0; affine meaning of each rate shape; per-edge / per-turn table semantics; floor and clip rules",
)

prop(
    "C17",
    # thorough is split into several Kani invocations with fewer jobs: kani-driver itself grew past
    # 14 GB resident when 16 of the large product shapes were parsed concurrently
    runs=[dict(crate="core", quick=["c17::q::"], thorough=["c17::q::"], jobs=8),
          dict(crate="core", quick=[], thorough=["c17::t::s1"], jobs=6),
          ],  # c17::t::s2 / c17::t::s3 (first axis with 2-3 options, 20 shapes): the Kani driver dies under the
              # memory cap ("No exit code?") in the thorough run - kept as harnesses, outside every tier and the claim
    functions=["MultiSet::from", "MultiSet::next (Iterator)"],
    bounds=("shape space enumerated exhaustively: 1..3 axes with 1..3 options each (39 shapes; 8 in the quick tier); element values symbolic (u8); "
            "unwind prod(n_i)+4; each shape: prod(n_i)+2 calls of next()"),
    assumptions=[
        "the shape (axis count and lengths) is a concrete parameter per harness: symbolic Vec lengths are out of reach for CBMC; the solver contributes independence from the element values and panic freedom (index, overflow, bounds checks)",
        "more than 3 axes or more than 3 options per axis are outside the claim",
        "the JSON overlay of GridSearchPlugin::process (object clone / merge, removal of the grid section, pass-through without a grid section) is NOT covered: serde_json objects are IndexMap -> hashbrown",
    ],
    out=["GridSearchPlugin::process JSON handling", "flattening of object-valued choices"],
    oracle="item j is the mixed-radix decoding of j (first axis fastest), exactly prod(n_i) items, then None forever (injective decoding => each combination exactly once)",
)

prop(
    "C12",
    runs=[dict(crate="core", quick=["c17::dq::"], thorough=["c17::dq::", "c17::dt::"], jobs=8),
          dict(crate="app", quick=["c12::q::"], thorough=["c12::q::"])],
    functions=["MultiSet::from", "MultiSet::next", "InjectInputPlugin::process"],
    bounds=("MultiSet: every degenerate shape (no axes, or at least one empty axis) up to 3 axes x 0..3 options (46 shapes; 13 in the quick tier), element values symbolic, 3 calls of next(); "
            "inject plugin: query = Bool(any) or Number(any u64), every overwrite policy; unwind 4"),
    assumptions=[
        "desired behaviour of a degenerate product: no axes -> exactly one empty combination (the query passes through), an empty axis -> no combination; in both cases the iterator ends",
        "std::fmt::format stubbed (error messages)",
        "serde_json Null queries (turned into an object by IndexMut -> IndexMap allocation), every plugin that needs a JSON object lookup, and CompassApp::run itself (rayon, empty batch) are NOT covered",
    ],
    out=["CompassApp::run / run_batch", "grid search JSON handling", "vertex/edge matching plugins", "load balancer", "json_array_flatten helpers (300 s probe timeout)"],
    oracle="no panic (Kani's panic / overflow / index checks), termination within the stated number of calls, error variant UnexpectedQueryStructure for non-object queries",
)

prop(
    "C04",
    runs=[dict(crate="app", quick=["c04::q::", "c04::qc::"], thorough=["c04::q::", "c04::qc::", "c04::t::"]),
          dict(crate="core", quick=["c04core::q::"], thorough=["c04core::q::"])],
    functions=["VehicleRestriction::valid (6 kinds)", "CombinedFrontierModel::valid_frontier", "EdgeCutFrontierModel::{new, valid_frontier}", "WeightUnit::convert", "DistanceUnit::convert"],
    bounds=("vehicle quantity and limit: any finite f64 in 1e-3..1e6; the (kind, vehicle unit, limit unit) triple is concrete per harness: 4 length kinds x 25 unit pairs, total weight x 9, weight per axle x 9 x axles in {0,1,2,3,5} = 154 instances (33 quick); "
            "combined model: 0..3 inner models each answering Ok(true) / Ok(false) / Err (symbolic), any edge, with and without previous edge; "
            "edge-cut wrapper: 0, 1 or 3 cut edges with symbolic ids, wrapped model answering Ok(true) / Ok(false) / Err, any edge; unwind 5"),
    assumptions=[
        "oracle = physical conversion factor (SI table in the harness); inside a band of 0.1 percent around equality either answer is accepted (the unit table's own tolerance, property C09)",
        "inner models of the combined model are harness-defined implementations of the FrontierModel trait returning arbitrary answers",
        "std::hash::RandomState::new stubbed (an EMPTY StateModel is constructed; no hashing happens)",
        "edge-cut wrapper: the cut-edge set is the hook H1 table model",
        "RoadClassFrontierModel, TurnRestrictionFrontierModel, VehicleRestrictionFrontierModel (std HashSet / HashMap lookups in the app crate) and the search loop's consultation of the model for every candidate edge are NOT covered",
    ],
    out=["road-class / turn-restriction / per-edge restriction lookups", "the search loop", "JSON parsing of vehicle parameters and road classes"],
    oracle="valid == (quantity * physical factor [/ axles] <= limit) outside the tolerance band; combined = conjunction with error propagation; a cut edge is never usable, any other edge is the wrapped model's call",
)

prop(
    "C14",
    runs=[dict(crate="pt", quick=["c14::q::", "c14b::q::"], thorough=["c14::q::", "c14::t::", "c14b::q::", "c14b::t::"])],
    functions=["utils::find_nearest_index", "Interp1D::{new, linear, left_nearest, right_nearest, nearest}", "Interp2D::new", "Interpolator::{interpolate, validate_inputs}",
               "InterpolationSpeedGradeModel::predict (built with the verification-only constructor verif_from_parts)"],
    bounds=("axes: every strictly increasing axis of length 2, 3, 4 with finite values in [-1e3, 2e3]; table values any finite f64 in +-1e6; query point any f64 (in range for the lookup, outside for rejection, ANY finite speed / grade for predict); "
            "grids 1-D x3, x4; 2-D 2x3 and 2x2; unwind 6-7"),
    assumptions=[
        "hook H2: InterpolationSpeedGradeModel::verif_from_parts (cfg(kani) only) wraps an interpolator; `new` (model file, linspace grid, underlying model evaluation) is NOT covered",
        "2-D: on a pinned non-uniform 3 x 3 grid with symbolic table values the interpolator returns the table value EXACTLY at each of the nine grid points (quick); at one pinned interior point the value lies within the corner range (thorough, 824 s; a second point did not return in 1200 s)",
        "otherwise the blend arithmetic is NOT decided: corner range for arbitrary points and symbolic axes, 3-D grid points, exactness for multilinear data, 1-D/2-D/3-D/N-D agreement, continuity across cell borders; N-D (ndarray) not covered",
        "predict: query given in the model's own units (input unit conversion is property C09)",
        "std::fmt::format stubbed",
    ],
    out=["interpolated value bounds / exactness", "InterpND", "bundled vehicle models, smartcore agreement"],
    oracle="cell containment a[i] <= t <= a[i+1]; table value at 1-D and 2-D grid points; neighbours for nearest strategies; corner range at an interior point; Err outside grid / wrong dimension; predict never fails",
)

prop(
    "C08",
    runs=[dict(crate="pt", quick=["c08::q::"], thorough=["c08::q::", "c08::t::"])],
    functions=["vehicle_ops::{soc_from_battery_and_delta, as_soc_percent, update_soc_percent}", "StateModel::{get_custom_f64, set_custom_f64}", "PredictionModelRecord::predict (cache = None)", "ICE::best_case_energy", "Energy::create", "EnergyRateUnit::associated_*"],
    bounds=("charge arithmetic: capacity in [1e-3, 1e4], energies in +-1e4 (range claim), capacity pinned to {60, 0.5, 1000} for the unclamped formula; "
            "predict: rate any finite f64 with 1e-6 <= |r| <= 1e3 (both signs) with adjustment and distance pinned per instance, or distance in [1e-3, 1e7] with rate and adjustment pinned; 5 (rate unit, distance unit) instances; unwind 4"),
    assumptions=[
        "the prediction model behind the record is a harness-defined implementation of the PredictionModel trait returning an arbitrary rate (the trait's contract), so speed / grade dependence is the model's business",
        "vehicle types (BEV / ICE / PHEV consume_energy, best_case_energy_state, PHEV fuel switching) go through the state model BY FEATURE NAME: no verdict in 900 s (3 GB) - NOT covered; neither is update_from_query (serde_json) nor the prediction cache",
        "exact clamp ends (charge == 100 when remaining >= capacity) and monotonicity in the energy used need reasoning about a symbolic division: no verdict in 600 s - NOT covered",
        "update_soc_percent: one-feature state model (the charge feature) with CompactOrderedHashMap::{get, get_index} stubbed to resolve every name to the single entry; capacity pinned to 60; decided: range, direction of change, regeneration not lost at an empty battery",
        "std::fmt::format stubbed",
    ],
    out=["BEV/ICE/PHEV state updates", "starting charge rejection", "prediction cache", "EnergyTraversalModel::traverse_edge"],
    oracle="0 <= charge <= 100; charge = 100*(start-used)/capacity within 0.1% when not clamped; energy = rate x adjustment x distance within 0.2% in the rate's energy unit; sign preserved",
)

prop(
    "C01",
    runs=[dict(crate="core", quick=["c01::q::"], thorough=["c01::q::", "c01::t::"])],
    functions=["Direction::{tree_key_vertex_id, terminal_vertex_id}", "backtrack::vertex_oriented_route"],
    bounds=("orientation: any edge (ids any usize), both directions; backtrack: ANY edge table over 3 vertices / 2 edges (quick), 3/3 and 4/4 (thorough) with symbolic end points, ANY partial tree consistent with it (parent cycles, missing entries allowed), any origin != destination; unwind 6-7"),
    assumptions=[
        "hook H1: the tree type HashMap<VertexId, SearchTreeBranch> and the visited-edge HashSet are the fixed-capacity table models",
        "that run_a_star only inserts branches consistent with the graph and never closes a parent cycle is decided by INDUCTION over the loop iterations (harness crate `loop`, see the loop assumptions below): clause I2 of the invariant - every tree entry records a permitted edge joining the recorded parent to the entry's vertex in search direction, and cost(parent) < cost(vertex), hence following parents strictly decreases the cost and reaches the origin (the only vertex without entry that has a cost) without revisiting a vertex",
        "edge-oriented wrappers, route concatenation in the ksp algorithms, route_contains_loop (itertools unique / hash sets) are NOT covered",
        "std::fmt::format stubbed",
    ],
    out=["run_a_star / run_a_star_edge_oriented", "ksp route concatenation", "reverse-route re-orientation"],
    oracle="key = far end, parent = near end; backtrack == follow parents (exact expected edge sequence): contiguous, repeat-free, origin-to-destination, or Err",
)

prop(
    "C15",
    runs=[dict(crate="core", quick=["c15::q::lookups", "c11::q::step_four", "c11::q::step_n5"], thorough=["c15::q::lookups", "c11::q::", "c11::qi::"])],
    functions=["Graph::{get_edge, get_vertex, src_vertex_id, dst_vertex_id, incident_vertex, edge_triplet, out_edges, in_edges, incident_edges, n_edges, n_vertices}",
               "CompactOrderedHashMap::{insert, keys} (adjacency instantiation <EdgeId, VertexId>)"],
    bounds=("graph with 3 vertices and 2 edges with symbolic far ends, query ids any usize (in and out of range); plus the container step harnesses of C11 in the adjacency instantiation <EdgeId, VertexId> (quick: the representation switch 4 -> 5 and 5 -> 6 entries; thorough: every representation empty..7 and the iterating observers); unwind 5 / 40"),
    assumptions=[
        "the loader proper (CSV / gzip parsing, header and line counting, the row callback closure, scanned counts) is behind File::open and is NOT covered: the harness fills the adjacency containers with the same two inserts the callback performs",
        "hook H1 table model for degrees >= 5",
        "Graph::{out_edges, in_edges, incident_edges(_iter)} over a hub vertex of degree 1..7 (harness c15::adjacency, kept as a documented attempt): no verdict in 900 s in four formulations (a container read back through Box<[..]> has a discriminant CBMC cannot fold, so the NEntries arm - itertools sorted_by_key -> std stable sort - is explored at every degree) - NOT covered; the per-vertex edge listing is decided at container level only (C11: keys/iteration in index order)",
        "per-edge side tables (speeds, grades, headings, classes) and vertex coordinates from files are NOT covered",
    ],
    out=["edge_loader / vertex_loader / read_utils / fs_utils", "gzip", "row alignment of side tables"],
    oracle="row i or Err for every id, end points and triplets the edge's own; container: insertion-ordered map",
)

prop(
    "C03",
    runs=[dict(crate="core", quick=["c03::q::", "c03::s1::add_time", "c03::m::distance_model", "c03::m::turn_delay"], thorough=["c03::q::", "c03::s1::", "c03::m::distance_model", "c03::m::turn_delay"])],
    functions=["EdgeHeading::{bearing_to_destination, start_heading, end_heading}", "Turn::from_angle", "TurnDelayAccessModelEngine::get_delay", "get_headings",
               "StateModel::{add_distance, add_time, add_energy, set_energy, get_distance, get_time, get_energy} (one-feature models, container lookups stubbed)",
               "DistanceTraversalModel::traverse_edge", "TurnDelayAccessModel::access_edge"],
    bounds=("headings any i16 in 0..360; angle any i16; 8 table delays any finite f64 in [0, 1e4]; "
            "state model: one-feature models, the added / set value any finite f64 in [1e-3, 1e6] (energy 1e4), the accumulator's previous content pinned to a non-zero constant, unit pairs s->min, km->mi, kWh->gal; unwind 4-10"),
    assumptions=[
        "hooks H1 (turn delay table, cost tables) and H2 (CostModel::verif_from_parts); rate kernels stubbed by their non-recursive equivalents (see C07)",
        "EdgeTraversal::{forward_traversal, reverse_traversal} on a fixture instance (harness c03::l3, kept as a documented attempt): 17 GB with a neighbouring edge, no verdict in 1500 s even with a feature-less cost model - NOT covered, so the order 'access update for the network-ordered edge pair, then traversal update' is NOT decided",
        "one call of the REAL DistanceTraversalModel::traverse_edge and TurnDelayAccessModel::access_edge on a one-feature state vector whose previous content is a constant (edge length resp. headings and table delays symbolic); SpeedTraversalModel::traverse_edge on its own two-feature model did not return in 900 s even with the table speed and previous state pinned (c03::m::attempts) - so 'time = length / table speed' is decided only at the level of the Time constructor (C09), NOT through the speed model",
        "state-model harnesses: CompactOrderedHashMap::{get, get_index} are stubbed to resolve every name to the single entry of a one-feature model (slot resolution by name is the container's business, C11); the accumulator's previous content is a constant (with a symbolic one the convert-add-convert chain against an oracle did not return in 600 s); two-feature versions (own-slot-only) did not return in 900-1200 s and are kept as documented attempts (c03::s)",
        "route-level accumulation by the search loop, reorient_reverse_route, the summary / traversal output plugins and output units are NOT covered",
        "std::fmt::format and StateModel::get_names (error message) stubbed",
    ],
    out=["speed / distance traversal models", "search loop accumulation", "response JSON"],
    oracle="wrapped angle congruent mod 360; documented turn sectors; table entry of the classified turn; access (network order pair) then traversal applied to a copy; costs = cost model's; unit-aware add = previous + converted value (0.2%)",
)

# ---------------------------------------------------------------------------------------------
# the search loop (harness crate `loop`): induction over the iterations of the REAL loop body of
# run_a_star, sliced from /repo's current source text on every run (lib/slice_loop.py)
# ---------------------------------------------------------------------------------------------
LOOP_FUNCTIONS = [
    "a_star_algorithm::run_a_star - prologue, ONE iteration of the loop body, epilogue (re-emitted verbatim by the source slicer as verif_a_star_{prologue,step,epilogue}; includes advance_search, get_last_traversed_edge_id)",
    "TerminationModel::test (IterationsLimit)", "StateModel::initial_state", "Graph::get_edge", "Direction::{tree_key_vertex_id, terminal_vertex_id}",
    "SearchResult::new", "FrontierModel::valid_frontier (dyn dispatch to a harness mask model)",
]
LOOP_BOUNDS = ("induction over loop iterations (histories of ANY length): base = the state the prologue hands to the loop satisfies INV; step = from EVERY state "
               "satisfying INV one iteration of the real loop body re-establishes INV or leaves the loop / fails under exactly the stated conditions; exit = "
               "the epilogue returns the loop's tree. Symbolic: ANY directed graph with NV vertices and NE edges (end points symbolic: self loops, parallel and "
               "anti-parallel edges), any edge permission mask, edge costs any f64 in [2^-10, 2^10], estimates in [0, 2^10], both directions, any origin, any / no "
               "destination, iteration limit any u64 <= 2^20, queue priorities any non-NaN f64, tie-breaking of the queue nondeterministic. Instances (NV, NE): "
               "quick (2,1) for C01 / C04 / C10 and (2,2) for C05; thorough adds the step at (3,3) and base / exit at (3,4) / (4,4) (the steps at (3,4) and (4,4) are documented attempts: spurious counterexample that does not reproduce natively, resp. no verdict). Stated domain bound: every cost-so-far < 2^40 (assumed of the pre-state; under it "
               "cost + edge cost > cost, no floating-point absorption). Table models have capacity 4 in this crate (NV <= 4). unwind = NE + 2")
LOOP_ASSUMPTIONS = [
    "source slicer (lib/slice_loop.py): the three functions are the text of run_a_star's prologue / loop body / epilogue, regenerated from /repo's current source on every run and compiled inside the same module (hook H4, feature verif-step); that run_a_star equals 'prologue; loop { body }; epilogue' is syntactic (exactly one top-level loop, checked by the slicer; any other shape -> inconclusive, never pass)",
    "assume-guarantee, through the override points of hook H5 (util/verif_hooks.rs): Direction::get_incident_edges returns exactly the listed edges leaving / entering the vertex in edge-id order (decided from the container inwards by C15/C11); Direction::perform_edge_traversal returns a traversal of that edge with a finite, strictly positive cost and an empty state vector (C07: finite and > 0); SearchInstance::estimate_traversal_cost returns a finite non-negative estimate (C07). forward_traversal / reverse_traversal and the cost model themselves are NOT executed here",
    "hooks H1/H3: tree, cost table and frontier queue are the fixed-capacity table models (contract of a map / of a priority queue; pop removes AN entry of maximal priority, chosen nondeterministically among equals)",
    "restrictions depend on the edge only (mask per edge id); turn restrictions (dependence on the previous edge) are NOT covered by the loop harnesses",
    "an inductive invariant may admit pre-states no run reaches: a counterexample of the step harness is replayed natively on the sliced loop body from that pre-state; INV was strengthened until the unchanged tree passes",
    "std::time::Instant::now stubbed to a fixed instant (no runtime limit configured), std::fmt::format stubbed",
    "NOT decided here: optimality of the costs (C02), run_a_star_edge_oriented and the edge-oriented route assembly, the ksp drivers, bidirectional / reverse-route re-orientation",
]
INV_TEXT = ("INV: (I1) origin has cost 0 and no entry, every other vertex has a cost iff it has a tree entry; (I2) every entry v -> (p, e): e exists, is permitted, joins p to v in "
            "search direction, p has a cost and cost(p) < cost(v); (I3) costs finite and >= 0, iterations <= limit; (I4) for every permitted edge p -> v: p has a cost => v has a "
            "cost or p is queued; (I5) queued vertices have a cost; (I7) a destination with a cost is still queued")
LOOP_RUN_Q1 = dict(crate="loop", quick=["astar::q1::", "astar::q::base_v2_e2", "astar::q::exit_v2_e2"], thorough=["astar::q1::", "astar::q::", "astar::t::"], jobs=6)
LOOP_RUN_Q = dict(crate="loop", quick=["astar::q::base_v2_e2", "astar::q::step_v2_e2", "astar::q::exit_v2_e2"], thorough=["astar::q1::", "astar::q::", "astar::t::", "astar::dj::step_dijkstra_v2_e2", "astar::dj::base_dijkstra_v2_e2"], jobs=6)

prop(
    "C05",
    runs=[LOOP_RUN_Q],
    ht_quick=1500, ht_thorough=5400,
    functions=LOOP_FUNCTIONS,
    bounds=LOOP_BOUNDS,
    assumptions=LOOP_ASSUMPTIONS + [
        INV_TEXT,
        "decided at the loop's exits (oracle: boolean closure of the symbolic graph under the mask, computed in the harness): search without destination ends (queue exhausted) with a tree whose vertices are exactly the vertices reachable from the origin over permitted edges, the origin excluded; search with destination ends with the destination in the tree only if it is reachable, and returns NoPathExistsBetweenVertices only if it is NOT reachable; the only other error is the iteration limit; origin == destination returns an empty result before the loop",
        "'each labelled with its least cost' (second sentence of the property) is decided for Dijkstra by the C02 harnesses (astar::dj::, same crate): at queue exhaustion every tree vertex carries its Bellman-Ford least cost; they run under C02, and under this property in the thorough tier",
        "that a search with a reachable destination terminates with a route (rather than running on) follows from the iteration limit only; termination without a limit is not decided",
    ],
    out=["least-cost labelling of the tree", "edge-oriented searches", "restrictions that depend on the previous edge or the state"],
    oracle="reachability closure over permitted edges in search direction (harness, NV-1 relaxation rounds over the symbolic edge table)",
)

INV_D_TEXT = ("INV_D (Dijkstra, weight factor 0; 'closed' = has a cost and is not queued; least(v) = Bellman-Ford over the symbolic edge table, the same left-to-right "
              "floating-point sums the search forms): (D1) cost(v) >= least(v); (D2) closed v: cost(v) == least(v); (D3) queued v: priority == cost(v); "
              "(D4) every permitted edge u -> v out of a closed u: v has a cost and cost(v) <= cost(u) + c(e); (D7) the parent of a tree entry is closed and "
              "cost(v) == cost(parent) + c(edge) exactly")
prop(
    "C02",
    runs=[dict(crate="loop", quick=["astar::dj::bf_fixpoint_v2_e2", "astar::dj::base_dijkstra_v2_e2", "astar::dj::step_dijkstra_v2_e1"],
               thorough=["astar::dj::", "astar::djt::"], jobs=4)],
    ht_quick=1800, ht_thorough=6000,
    functions=LOOP_FUNCTIONS + ["InternalPriorityQueue::{push, push_increase, pop} (table model of the queue: pop returns AN entry of maximal priority)"],
    bounds=("DIJKSTRA ONLY (weight factor Some(0)), vertex-oriented, edge costs that do not depend on how the edge was reached. " + LOOP_BOUNDS +
            " Instances (NV, NE) for this property: quick (2,1), thorough adds (2,2) [two vertices: parallel / anti-parallel edges and self loops compete for the least cost]; the step at (3,3) [direct edge against a two-edge detour] did not return in 5000 s and is NOT part of the claim (thorough adds only the base case at (3,3))."),
    assumptions=[INV_TEXT, INV_D_TEXT,
        "decided: base (the prologue establishes INV_D), step (from EVERY state satisfying INV and INV_D one iteration of the real loop body re-establishes INV and INV_D), and at the exits: a destination that is popped carries cost == least(destination); a search without destination ends with every tree vertex labelled with its least cost. By D7 the cost accumulated along the tree path of a vertex equals its label, so the route that backtracking reads off the tree (C01) has least total cost",
        "lemma used as an assumption of the step harness: the Bellman-Ford table is a fixpoint of relaxation after NV-1 rounds (decided by astar::dj::bf_fixpoint_v2_e2; for (3,3) the lemma harness is in the thorough tier and may not return - then it stays a mathematical fact about NV-1 rounds with monotone floating-point addition, stated, not decided)",
        "NOT decided: A* with a positive weight factor (admissibility of the haversine estimate: trigonometry), query-supplied weights and rates (CostModel::new), reverse == forward costs on the same network, 'Dijkstra and A* report the same cost', edge-oriented searches, costs that depend on the previous edge (access model)",
    ] + LOOP_ASSUMPTIONS,
    out=["A* (estimate admissibility)", "cost model construction from query weights", "edge-oriented searches", "graphs with more than 3 vertices"],
    oracle="Bellman-Ford least costs over the symbolic edge table (harness), compared bit-exactly with the search's labels",
)

# loop-level obligations of C01 / C04 / C10 ride on the same induction harnesses
_LOOP_EXTRA = {
    "C01": ["decided by the loop induction for C01: clause I2 of INV (see above) holds in every state the loop reaches and in the tree the epilogue returns: entries are consistent with the graph in search direction and parents have strictly smaller cost (rooted, acyclic); the origin never gets an entry"],
    "C04": ["decided by the loop induction for C04: the traversal of a forbidden edge is never even attempted (counter in the traversal override stays 0 for every edge the mask forbids) and every tree entry records a permitted edge (clause I2), in every reachable state and in the returned tree - for restrictions that depend on the edge only"],
    "C10": ["decided by the loop induction for C10: with an iteration limit L the loop body is entered with iterations <= L, every completed iteration increases the counter by exactly one, and an iteration entered with iterations >= L returns the explicit QueryTerminated error before anything is popped - so at most L expansion steps are performed and a limit that is hit is reported as the terminated error, never as a route or 'no path'; the counter the epilogue reports is the loop's"],
}
for _pid, _extra in _LOOP_EXTRA.items():
    _P = PROPS[_pid]
    _P["runs"] = list(_P["runs"]) + [LOOP_RUN_Q1]
    _P["functions"] = list(_P.get("functions", [])) + LOOP_FUNCTIONS
    _P["bounds"] = _P.get("bounds", "") + " || SEARCH LOOP: " + LOOP_BOUNDS
    _P["assumptions"] = list(_P.get("assumptions", [])) + ["--- search loop (harness crate `loop`) ---", INV_TEXT] + _extra + LOOP_ASSUMPTIONS
    _P["ht_quick"] = max(_P.get("ht_quick", 600), 1500)
    _P["ht_thorough"] = max(_P.get("ht_thorough", 1800), 5400)
