//! C07 - edge costs are finite and strictly positive; estimates are non-negative.
//!
//! Shapes are concrete per harness (number of features, the rate VARIANT of each feature, the
//! network-rate variant, the aggregation); every number inside the shape is symbolic: weights,
//! factors, offsets, looked-up surcharges, previous / next state, edge ids.
//!
//! Layer (a) `CostModel::{traversal_cost, access_cost, cost_estimate}` on a model built with the
//! verification-only constructor `CostModel::verif_from_parts` (hook H2): finite, > 0 resp. >= 0.
//! Layer (b) the kernels `cost_ops::calculate_vehicle_costs`, `VehicleCostRate::map_value`,
//! `NetworkCostRate::{traversal_cost, access_cost}`, `CostAggregation`: the formula
//! weight * rate(delta), within 0.1 percent (bit-exact equality of two symbolic products is a
//! multiplier-equivalence SAT problem and does not return), exact zero for zero weight / zero
//! rate, floor and clip rules exactly.

use crate::util::*;
use routee_compass_core::model::cost::cost_aggregation::CostAggregation;
use routee_compass_core::model::cost::cost_model::CostModel;
use routee_compass_core::model::cost::cost_ops;
use routee_compass_core::model::cost::network::network_cost_rate::NetworkCostRate;
use routee_compass_core::model::cost::vehicle::vehicle_cost_rate::VehicleCostRate;
use routee_compass_core::model::network::{Edge, EdgeId};
use routee_compass_core::model::traversal::state::state_variable::StateVar;
use routee_compass_core::model::unit::as_f64::AsF64;
use routee_compass_core::model::unit::Cost;
use routee_compass_core::util::verif_collections::HashMap as TableMap;

const MIN_COST: f64 = 0.0000000001;

fn any_state() -> f64 {
    let x: f64 = kani::any();
    kani::assume(x.is_finite() && x >= -1e9 && x <= 1e9);
    x
}
fn any_weight() -> f64 {
    let x: f64 = kani::any();
    kani::assume(x.is_finite() && x >= -1e6 && x <= 1e6);
    x
}
fn any_param() -> f64 {
    let x: f64 = kani::any();
    kani::assume(x.is_finite() && x >= -1e6 && x <= 1e6);
    x
}
fn any_surcharge() -> f64 {
    let x: f64 = kani::any();
    kani::assume(x.is_finite() && x >= -1e9 && x <= 1e9);
    x
}
fn any_edge() -> Edge {
    Edge::new(kani::any(), kani::any(), kani::any(), 1.0)
}

/// rate shapes (the variant is concrete, its parameters symbolic)
#[derive(Clone, Copy)]
pub enum Shape {
    Zero,
    Raw,
    Factor,
    Offset,
    CombFactorOffset,
    CombNested,
}

fn rate_of(shape: Shape) -> VehicleCostRate {
    match shape {
        Shape::Zero => VehicleCostRate::Zero,
        Shape::Raw => VehicleCostRate::Raw,
        Shape::Factor => VehicleCostRate::Factor { factor: any_param() },
        Shape::Offset => VehicleCostRate::Offset { offset: any_param() },
        Shape::CombFactorOffset => VehicleCostRate::Combined(vec![
            VehicleCostRate::Factor { factor: any_param() },
            VehicleCostRate::Offset { offset: any_param() },
        ]),
        Shape::CombNested => VehicleCostRate::Combined(vec![
            VehicleCostRate::Combined(vec![VehicleCostRate::Raw]),
            VehicleCostRate::Factor { factor: any_param() },
        ]),
    }
}

/// the same shapes with CONSTANT parameters (factor F, offset O): used where an oracle has to
/// bound a product - a symbolic factor would make the oracle a second symbolic product
pub const F: f64 = 2.5;
pub const O: f64 = -40.0;
fn rate_const(shape: Shape) -> VehicleCostRate {
    match shape {
        Shape::Zero => VehicleCostRate::Zero,
        Shape::Raw => VehicleCostRate::Raw,
        Shape::Factor => VehicleCostRate::Factor { factor: F },
        Shape::Offset => VehicleCostRate::Offset { offset: O },
        Shape::CombFactorOffset => VehicleCostRate::Combined(vec![
            VehicleCostRate::Factor { factor: F },
            VehicleCostRate::Offset { offset: O },
        ]),
        Shape::CombNested => VehicleCostRate::Combined(vec![
            VehicleCostRate::Combined(vec![VehicleCostRate::Raw]),
            VehicleCostRate::Factor { factor: F },
        ]),
    }
}
/// documented meaning of a constant-parameter shape as (slope, intercept): rate(x) = slope*x + intercept
fn meaning(shape: Shape) -> (f64, f64) {
    match shape {
        Shape::Zero => (0.0, 0.0),
        Shape::Raw => (1.0, 0.0),
        Shape::Factor => (F, 0.0),
        Shape::Offset => (1.0, O),
        Shape::CombFactorOffset => (F, O),
        Shape::CombNested => (F, 0.0),
    }
}
/// y == slope*x + intercept within 0.1 percent of the larger term (constants folded)
fn affine_close(x: f64, y: f64, slope: f64, icpt: f64) -> bool {
    let e = x * slope + icpt;
    let m = (x * slope).abs() + icpt.abs();
    (y - e).abs() <= 1e-3 * m || y == e
}

#[derive(Clone, Copy)]
pub enum NetShape {
    Zero,
    EdgeLookup,
    EdgeEdgeLookup,
    Combined,
}

fn edge_lookup() -> NetworkCostRate {
    let mut lookup: TableMap<EdgeId, Cost> = TableMap::new();
    lookup.insert(EdgeId(kani::any()), Cost::new(any_surcharge()));
    NetworkCostRate::EdgeLookup { lookup }
}
fn edge_edge_lookup() -> NetworkCostRate {
    let mut lookup: TableMap<(EdgeId, EdgeId), Cost> = TableMap::new();
    lookup.insert((EdgeId(kani::any()), EdgeId(kani::any())), Cost::new(any_surcharge()));
    NetworkCostRate::EdgeEdgeLookup { lookup }
}
fn net_of(shape: NetShape) -> NetworkCostRate {
    match shape {
        NetShape::Zero => NetworkCostRate::Zero,
        NetShape::EdgeLookup => edge_lookup(),
        NetShape::EdgeEdgeLookup => edge_edge_lookup(),
        NetShape::Combined => NetworkCostRate::Combined(vec![edge_lookup(), edge_edge_lookup()]),
    }
}

fn names(n: usize) -> Vec<(String, usize)> {
    // names are never compared by the cost kernels; empty strings keep the harness small
    let mut v = Vec::with_capacity(n);
    let mut i = 0;
    while i < n {
        v.push((String::new(), i));
        i += 1;
    }
    v
}

fn state_vec(n: usize) -> Vec<StateVar> {
    let mut v = Vec::with_capacity(n);
    let mut i = 0;
    while i < n {
        v.push(StateVar(any_state()));
        i += 1;
    }
    v
}

/// layer (a): all three public cost functions of a model with the given shapes
fn model_costs(shapes: &[Shape], nets: &[NetShape], agg: CostAggregation) {
    let n = shapes.len();
    let mut weights = Vec::with_capacity(n);
    let mut vrates = Vec::with_capacity(n);
    let mut nrates = Vec::with_capacity(n);
    let mut i = 0;
    while i < n {
        weights.push(any_weight());
        vrates.push(rate_of(shapes[i]));
        nrates.push(net_of(nets[i]));
        i += 1;
    }
    let m = CostModel::verif_from_parts(names(n), weights, vrates, nrates, agg);
    let prev = state_vec(n);
    let next = state_vec(n);
    let e1 = any_edge();
    let e2 = any_edge();
    let t = m.traversal_cost(&e2, &prev, &next);
    let a = m.access_cost(&e1, &e2, &prev, &next);
    let h = m.cost_estimate(&prev, &next);
    kani::cover!(t.is_ok() && a.is_ok() && h.is_ok(), "all three costs computed");
    kani::cover!(matches!(t, Ok(c) if c.as_f64() == MIN_COST), "traversal cost floored");
    let can_exceed_floor = shapes.iter().any(|s| !matches!(s, Shape::Zero)) || nets.iter().any(|n| matches!(n, NetShape::EdgeLookup | NetShape::Combined));
    kani::cover!(!can_exceed_floor || matches!(t, Ok(c) if c.as_f64() > 1.0), "traversal cost not floored");
    kani::cover!(matches!(h, Ok(c) if c.as_f64() == 0.0), "estimate clipped");
    assert!(t.is_ok() && a.is_ok() && h.is_ok(), "well-formed model and state vectors never fail");
    let (t, a, h) = (t.unwrap().as_f64(), a.unwrap().as_f64(), h.unwrap().as_f64());
    assert!(t.is_finite() && t > 0.0, "traversal cost is finite and strictly positive");
    assert!(a.is_finite() && a > 0.0, "access cost is finite and strictly positive");
    assert!(h.is_finite() && h >= 0.0, "estimate is finite and non-negative");
    std::mem::forget(m);
    std::mem::forget(prev);
    std::mem::forget(next);
}

/// layer (b): one feature, vehicle kernel formula under Sum aggregation. Weight, factor and
/// offset are per-instance constants; previous and next state are symbolic. No symbolic product
/// is computed twice (a second evaluation of the same product, even by the real function, is a
/// multiplier-equivalence problem for the SAT solver: no verdict in 400 s).
fn vehicle_n1(shape: Shape, w: f64) {
    let rate = rate_const(shape);
    let prev = [StateVar(any_state())];
    let next = [StateVar(any_state())];
    let idx = names(1);
    let weights = [w];
    let rates = [rate];
    let c = cost_ops::calculate_vehicle_costs((&prev, &next), &idx, &weights, &rates, &CostAggregation::Sum);
    kani::cover!(c.is_ok(), "cost computed");
    assert!(c.is_ok());
    let c = c.unwrap().as_f64();
    assert!(c.is_finite(), "finite");
    let delta = next[0].0 - prev[0].0;
    // the 0.1 percent formula is stated for changes of state of physical magnitude; subnormal
    // differences (1e-308) round coarsely under any implementation and are outside the claim
    kani::assume(delta == 0.0 || delta.abs() >= 1e-9);
    kani::cover!(delta < 0.0, "negative change of state (e.g. regenerated energy)");
    let (slope, icpt) = meaning(shape);
    assert!(affine_close(delta, c, slope * w, icpt * w), "Sum aggregation of one feature is weight * rate(delta)");
    if w == 0.0 || matches!(shape, Shape::Zero) {
        assert!(c == 0.0, "a zero weight or zero rate contributes exactly nothing");
    }
    std::mem::forget(rates);
    std::mem::forget(idx);
}

/// symbolic weight and factor: sign and zero structure of weight * rate(delta), from the operands' signs
fn vehicle_n1_sign(shape: Shape) {
    let w = any_weight();
    kani::assume(w == 0.0 || w.abs() >= 1e-6);
    let f = any_param();
    kani::assume(f == 0.0 || f.abs() >= 1e-6);
    let rate = match shape {
        Shape::Factor => VehicleCostRate::Factor { factor: f },
        _ => VehicleCostRate::Raw,
    };
    let prev = [StateVar(any_state())];
    let next = [StateVar(any_state())];
    let idx = names(1);
    let weights = [w];
    let rates = [rate];
    let c = cost_ops::calculate_vehicle_costs((&prev, &next), &idx, &weights, &rates, &CostAggregation::Sum).unwrap().as_f64();
    let delta = next[0].0 - prev[0].0;
    kani::assume(delta == 0.0 || delta.abs() >= 1e-9);
    let sgn = |x: f64| if x > 0.0 { 1i8 } else if x < 0.0 { -1i8 } else { 0i8 };
    let expect = match shape {
        Shape::Factor => sgn(w) * sgn(f) * sgn(delta),
        _ => sgn(w) * sgn(delta),
    };
    kani::cover!(c < 0.0, "negative contribution");
    kani::cover!(c > 0.0, "positive contribution");
    assert!(c.is_finite());
    assert!(sgn(c) == expect, "sign and zero structure of weight * rate(delta)");
    std::mem::forget(rates);
    std::mem::forget(idx);
}

/// two features under Sum: a zero-weight second feature (any rate, any change) is ignored
fn vehicle_n2_zero_weight() {
    let prev = [StateVar(any_state()), StateVar(any_state())];
    let next = [StateVar(any_state()), StateVar(any_state())];
    let idx = names(2);
    let rates = [VehicleCostRate::Raw, VehicleCostRate::Factor { factor: any_param() }];
    let c = cost_ops::calculate_vehicle_costs((&prev, &next), &idx, &[1.0, 0.0], &rates, &CostAggregation::Sum).unwrap().as_f64();
    let delta0 = next[0].0 - prev[0].0;
    kani::cover!(delta0 != 0.0, "non-trivial cost");
    assert!(c == delta0, "zero-weight features are ignored by a Sum");
    std::mem::forget(rates);
    std::mem::forget(idx);
}

/// x*c within relative tolerance, interval ends constant-folded where c is concrete
pub fn within(x: f64, y: f64, c: f64, tol: f64) -> bool {
    let a = x * (c * (1.0 - tol));
    let b = x * (c * (1.0 + tol));
    if a <= b {
        a <= y && y <= b
    } else {
        b <= y && y <= a
    }
}

/// the rate mappings themselves (real recursive code), against their documented meaning
fn map_value_rule(shape: Shape) {
    let x = any_state();
    kani::assume(x == 0.0 || x.abs() >= 1e-9);
    let rate = rate_const(shape);
    let y = rate.map_value(StateVar(x)).as_f64();
    kani::cover!(true, "reached");
    let (slope, icpt) = meaning(shape);
    assert!(y.is_finite());
    assert!(affine_close(x, y, slope, icpt), "zero / raw / factor / offset / sequential combination");
    match shape {
        Shape::Zero => assert!(y == 0.0),
        Shape::Raw => assert!(y == x),
        Shape::Offset => assert!(y == x + O),
        _ => {}
    }
    std::mem::forget(rate);
}

/// symbolic offset: Offset adds exactly
fn map_offset_exact() {
    let x = any_state();
    let o = any_param();
    let y = VehicleCostRate::Offset { offset: o }.map_value(StateVar(x)).as_f64();
    kani::cover!(true, "reached");
    assert!(y == x + o);
}

macro_rules! shapes_h {
    ($f:ident, $($name:ident [$uw:expr] => ($($arg:expr),*)),*) => {
        $(
            #[kani::proof]
            #[kani::unwind($uw)]
            pub fn $name() { $f($($arg),*) }
        )*
    };
}

/// floor and clip helpers, exactly
fn floor_clip() {
    let x: f64 = kani::any();
    kani::assume(!x.is_nan());
    let f = Cost::enforce_strictly_positive(Cost::new(x)).as_f64();
    let c = Cost::enforce_non_negative(Cost::new(x)).as_f64();
    kani::cover!(x <= 0.0, "floored");
    kani::cover!(x > 0.0, "kept");
    if x > 0.0 {
        assert!(f == x && c == x, "positive costs are kept");
    } else {
        assert!(f == MIN_COST, "non-positive costs become the tiny positive floor");
        assert!(c == 0.0 || c == x, "negative estimates are clipped to zero");
        assert!(c >= 0.0);
    }
    assert!(f > 0.0);
}

/// network rates: lookups hit and miss, zero, combined = sum
fn network_rule(shape: NetShape) {
    let rate = net_of(shape);
    let e1 = any_edge();
    let e2 = any_edge();
    let t = rate.traversal_cost(StateVar(any_state()), StateVar(any_state()), &e2);
    let a = rate.access_cost(StateVar(any_state()), StateVar(any_state()), &e1, &e2);
    assert!(t.is_ok() && a.is_ok());
    let (t, a) = (t.unwrap().as_f64(), a.unwrap().as_f64());
    let has_edge_table = matches!(shape, NetShape::EdgeLookup | NetShape::Combined);
    let has_turn_table = matches!(shape, NetShape::EdgeEdgeLookup | NetShape::Combined);
    kani::cover!(!has_edge_table || t != 0.0, "traversal surcharge found");
    kani::cover!(!has_turn_table || a != 0.0, "turn surcharge found");
    kani::cover!(t == 0.0 && a == 0.0, "no surcharge");
    assert!(t.is_finite() && a.is_finite());
    match &rate {
        NetworkCostRate::Zero => assert!(t == 0.0 && a == 0.0),
        NetworkCostRate::EdgeLookup { lookup } => {
            assert!(a == 0.0, "an edge table never charges a turn");
            match lookup.get(&e2.edge_id) {
                Some(c) => assert!(t == c.as_f64(), "per-edge surcharge of the traversed edge"),
                None => assert!(t == 0.0, "edges without an entry are free"),
            }
        }
        NetworkCostRate::EdgeEdgeLookup { lookup } => {
            assert!(t == 0.0, "a turn table never charges a traversal");
            match lookup.get(&(e1.edge_id, e2.edge_id)) {
                Some(c) => assert!(a == c.as_f64(), "per-turn surcharge of (previous, next)"),
                None => assert!(a == 0.0),
            }
        }
        NetworkCostRate::Combined(v) => {
            let t0 = v[0].traversal_cost(StateVar(0.0), StateVar(0.0), &e2).unwrap().as_f64();
            let a1 = v[1].access_cost(StateVar(0.0), StateVar(0.0), &e1, &e2).unwrap().as_f64();
            assert!(t == 0.0 + t0 + 0.0, "combined traversal = sum of the parts");
            assert!(a == 0.0 + 0.0 + a1, "combined access = sum of the parts");
        }
    }
    std::mem::forget(rate);
}

// ---------------------------------------------------------------------------------------------
// model level (hook H2). `VehicleCostRate::map_value` and `NetworkCostRate::{traversal_cost,
// access_cost}` are recursive (Combined(Vec<Self>)); a rate stored in the model's heap vectors has
// a discriminant CBMC cannot fold, so every call unrolls the recursion to the global bound in every
// arm (5 GB / no verdict). Assume-guarantee split: the recursive kernels are decided on their own
// above (real code, each shape); at model level they are replaced by the non-recursive stubs
// below, which are exact for the leaf variants and refuse (assume false) Combined.

pub fn map_value_flat(this: &VehicleCostRate, state: StateVar) -> Cost {
    match this {
        VehicleCostRate::Zero => Cost::ZERO,
        VehicleCostRate::Raw => Cost::new(state.0),
        VehicleCostRate::Factor { factor } => Cost::new(state.0 * factor),
        VehicleCostRate::Offset { offset } => Cost::new(state.0 + offset),
        VehicleCostRate::Combined(_) => {
            kani::assume(false);
            Cost::ZERO
        }
    }
}

pub fn net_traversal_flat(
    this: &NetworkCostRate,
    _p: StateVar,
    _n: StateVar,
    edge: &Edge,
) -> Result<Cost, routee_compass_core::model::cost::cost_model_error::CostModelError> {
    match this {
        NetworkCostRate::Zero => Ok(Cost::ZERO),
        NetworkCostRate::EdgeEdgeLookup { lookup: _ } => Ok(Cost::ZERO),
        NetworkCostRate::EdgeLookup { lookup } => Ok(lookup.get(&edge.edge_id).unwrap_or(&Cost::ZERO).to_owned()),
        NetworkCostRate::Combined(_) => {
            kani::assume(false);
            Ok(Cost::ZERO)
        }
    }
}

pub fn net_access_flat(
    this: &NetworkCostRate,
    _p: StateVar,
    _n: StateVar,
    prev_edge: &Edge,
    next_edge: &Edge,
) -> Result<Cost, routee_compass_core::model::cost::cost_model_error::CostModelError> {
    match this {
        NetworkCostRate::Zero => Ok(Cost::ZERO),
        NetworkCostRate::EdgeLookup { lookup: _ } => Ok(Cost::ZERO),
        NetworkCostRate::EdgeEdgeLookup { lookup } => Ok(*lookup.get(&(prev_edge.edge_id, next_edge.edge_id)).unwrap_or(&Cost::ZERO)),
        NetworkCostRate::Combined(_) => {
            kani::assume(false);
            Ok(Cost::ZERO)
        }
    }
}

macro_rules! model_h {
    ($($name:ident [$uw:expr] => ($shapes:expr, $nets:expr, $agg:expr)),*) => {
        $(
            #[kani::proof]
            #[kani::unwind($uw)]
            #[kani::stub(routee_compass_core::model::cost::vehicle::vehicle_cost_rate::VehicleCostRate::map_value, map_value_flat)]
            #[kani::stub(routee_compass_core::model::cost::network::network_cost_rate::NetworkCostRate::traversal_cost, net_traversal_flat)]
            #[kani::stub(routee_compass_core::model::cost::network::network_cost_rate::NetworkCostRate::access_cost, net_access_flat)]
            pub fn $name() { model_costs(&$shapes, &$nets, $agg) }
        )*
    };
}

/// composition and floor rule, exactly, on a product-free one-feature instance: weight 1.0, rate
/// Raw or Offset, per-edge surcharge s and per-turn surcharge u looked up in the network tables.
/// expected: traversal = floor(delta (+offset) + s), access = floor(delta (+offset) + u),
/// estimate = max(delta (+offset), 0) and ignores the network part.
fn model_floor_rule(offset_rate: bool) {
    let o = any_param();
    let rate = if offset_rate { VehicleCostRate::Offset { offset: o } } else { VehicleCostRate::Raw };
    let s = any_surcharge();
    let u = any_surcharge();
    let eid: usize = kani::any();
    let pid: usize = kani::any();
    let mut l1: TableMap<EdgeId, Cost> = TableMap::new();
    l1.insert(EdgeId(eid), Cost::new(s));
    let mut l2: TableMap<(EdgeId, EdgeId), Cost> = TableMap::new();
    l2.insert((EdgeId(pid), EdgeId(eid)), Cost::new(u));
    let m_t = CostModel::verif_from_parts(names(1), vec![1.0], vec![rate.clone()], vec![NetworkCostRate::EdgeLookup { lookup: l1 }], CostAggregation::Sum);
    let m_a = CostModel::verif_from_parts(names(1), vec![1.0], vec![rate], vec![NetworkCostRate::EdgeEdgeLookup { lookup: l2 }], CostAggregation::Sum);
    let prev = [StateVar(any_state())];
    let next = [StateVar(any_state())];
    let e2 = Edge::new(kani::any(), kani::any(), kani::any(), 1.0);
    let e1 = Edge::new(kani::any(), kani::any(), kani::any(), 1.0);
    let t = m_t.traversal_cost(&e2, &prev, &next).unwrap().as_f64();
    let a = m_a.access_cost(&e1, &e2, &prev, &next).unwrap().as_f64();
    let h = m_t.cost_estimate(&prev, &next).unwrap().as_f64();
    let delta = next[0].0 - prev[0].0;
    let v = if offset_rate { delta + o } else { delta };
    let hit_t = e2.edge_id.0 == eid;
    let hit_a = e1.edge_id.0 == pid && e2.edge_id.0 == eid;
    let raw_t = (0.0 + v * 1.0) + (0.0 + (if hit_t { s } else { 0.0 }) * 1.0);
    let raw_a = (0.0 + v * 1.0) + (0.0 + (if hit_a { u } else { 0.0 }) * 1.0);
    kani::cover!(hit_t && raw_t > 0.0, "surcharged edge, positive");
    kani::cover!(raw_t <= 0.0, "floored");
    kani::cover!(hit_a, "surcharged turn");
    assert!(t == if raw_t > 0.0 { raw_t } else { MIN_COST }, "traversal cost = vehicle part + per-edge surcharge, floored");
    assert!(a == if raw_a > 0.0 { raw_a } else { MIN_COST }, "access cost = vehicle part + per-turn surcharge, floored");
    assert!(h == if v > 0.0 { v } else { 0.0 } || (v == 0.0 && h == 0.0), "estimate = vehicle part clipped at zero, no network part");
    std::mem::forget(m_t);
    std::mem::forget(m_a);
}

pub mod q {
    use super::*;
    shapes_h!(vehicle_n1,
        vehicle_n1_zero [3] => (Shape::Zero, 1.0), vehicle_n1_raw [3] => (Shape::Raw, 0.5), vehicle_n1_factor [3] => (Shape::Factor, 2.0),
        vehicle_n1_offset [3] => (Shape::Offset, -1.5), vehicle_n1_factor_w0 [3] => (Shape::Factor, 0.0));
    shapes_h!(vehicle_n1_sign, vehicle_sign_raw [3] => (Shape::Raw), vehicle_sign_factor [3] => (Shape::Factor));
    #[kani::proof]
    #[kani::unwind(4)]
    pub fn vehicle_n2_zero_weight_ignored() { vehicle_n2_zero_weight() }
    shapes_h!(map_value_rule,
        map_zero [2] => (Shape::Zero), map_raw [2] => (Shape::Raw), map_factor [2] => (Shape::Factor), map_offset [2] => (Shape::Offset));
    #[kani::proof]
    #[kani::unwind(2)]
    pub fn map_offset_any() { map_offset_exact() }
    shapes_h!(network_rule,
        net_zero [2] => (NetShape::Zero), net_edge [2] => (NetShape::EdgeLookup));
    #[kani::proof]
    pub fn floor_and_clip() { floor_clip() }
    model_h!(
        model_n1_raw_sum [3] => ([Shape::Raw], [NetShape::Zero], CostAggregation::Sum),
        model_n1_factor_edge_sum [3] => ([Shape::Factor], [NetShape::EdgeLookup], CostAggregation::Sum),
        model_n1_offset_turn_mul [3] => ([Shape::Offset], [NetShape::EdgeEdgeLookup], CostAggregation::Mul)
    );
}

pub mod t {
    use super::*;
    model_h!(
        model_n1_zero_sum [3] => ([Shape::Zero], [NetShape::EdgeEdgeLookup], CostAggregation::Sum),
        model_n2_raw_factor_sum [4] => ([Shape::Raw, Shape::Factor], [NetShape::Zero, NetShape::EdgeLookup], CostAggregation::Sum),
        model_n2_factor_offset_mul [4] => ([Shape::Factor, Shape::Offset], [NetShape::EdgeEdgeLookup, NetShape::Zero], CostAggregation::Mul),
        model_n2_zero_offset_sum [4] => ([Shape::Zero, Shape::Offset], [NetShape::EdgeLookup, NetShape::Zero], CostAggregation::Sum)
    );
}

/// documented attempts, in no tier. Combined rates (recursive code) at kernel level: the
/// recursion-unwinding assertion cannot be discharged (heap discriminant) at unwind 3 and the
/// instances exceed 5 GB at larger bounds; the exact floor / composition rule at model level and
/// the combined network rate: no verdict in 1800 s.
pub mod attempts {
    use super::*;
    shapes_h!(map_value_rule, map_comb_fo [3] => (Shape::CombFactorOffset));
    shapes_h!(vehicle_n1, vehicle_n1_comb_fo [3] => (Shape::CombFactorOffset, 3.7));
    shapes_h!(network_rule, net_combined [3] => (NetShape::Combined));
    // the real recursive access_cost / traversal_cost on a turn table: 8-11 GB, no verdict (the turn
    // table semantics are decided at model level through the non-recursive stub only)
    shapes_h!(network_rule, net_edge_edge [2] => (NetShape::EdgeEdgeLookup));
    #[kani::proof]
    #[kani::unwind(3)]
    #[kani::stub(routee_compass_core::model::cost::vehicle::vehicle_cost_rate::VehicleCostRate::map_value, map_value_flat)]
    #[kani::stub(routee_compass_core::model::cost::network::network_cost_rate::NetworkCostRate::traversal_cost, net_traversal_flat)]
    #[kani::stub(routee_compass_core::model::cost::network::network_cost_rate::NetworkCostRate::access_cost, net_access_flat)]
    pub fn model_floor_rule_raw() { model_floor_rule(false) }
    #[kani::proof]
    #[kani::unwind(3)]
    #[kani::stub(routee_compass_core::model::cost::vehicle::vehicle_cost_rate::VehicleCostRate::map_value, map_value_flat)]
    #[kani::stub(routee_compass_core::model::cost::network::network_cost_rate::NetworkCostRate::traversal_cost, net_traversal_flat)]
    #[kani::stub(routee_compass_core::model::cost::network::network_cost_rate::NetworkCostRate::access_cost, net_access_flat)]
    pub fn model_floor_rule_offset() { model_floor_rule(true) }
}
