//! C13 - k-shortest paths: the acceptance rule for alternatives and the stop rule.
//!
//! Both ksp drivers treat `is_similar(..) == true` as "reject this alternative"
//! (single_via: `too_similar`, yens: `if !similar { candidate }`), so the property's
//! "accept all rejects no alternative" is `AcceptAll.is_similar(x) == false` for every x.

use crate::util::*;
use routee_compass_core::algorithm::search::ksp::ksp_query::KspQuery;
use routee_compass_core::algorithm::search::ksp::ksp_termination_criteria::KspTerminationCriteria as K;
use routee_compass_core::algorithm::search::util::route_similarity_function::RouteSimilarityFunction as R;
use routee_compass_core::model::network::vertex_id::VertexId;

pub mod q {
    use super::*;

    /// the default similarity setting rejects nothing, for every similarity value incl. NaN / inf
    #[kani::proof]
    pub fn accept_all_rejects_nothing() {
        let x: f64 = kani::any();
        let f = R::default();
        kani::cover!(x.is_nan(), "NaN similarity reaches the assertion");
        kani::cover!(x >= 1.0, "identical routes reach the assertion");
        assert!(matches!(f, R::AcceptAll), "accept-all is the default");
        assert!(!f.is_similar(x), "accept-all must not classify any alternative as too similar");
    }

    /// a threshold function rejects exactly the alternatives at or above its threshold, hence for
    /// the same candidate accept-all never rejects what a threshold accepts
    #[kani::proof]
    pub fn threshold_rule() {
        let x: f64 = kani::any();
        let t: f64 = kani::any();
        let a = R::EdgeIdCosineSimilarity { threshold: t };
        let b = R::DistanceWeightedCosineSimilarity { threshold: t };
        kani::cover!(x >= t, "rejected candidate");
        kani::cover!(x < t, "accepted candidate");
        assert!(a.is_similar(x) == (x >= t));
        assert!(b.is_similar(x) == (x >= t));
        if !a.is_similar(x) || !b.is_similar(x) {
            assert!(!R::AcceptAll.is_similar(x), "accept-all accepts whatever a threshold accepts");
        }
    }

    /// stop rule: never before `k` routes were found; `Exact` stops exactly there
    #[kani::proof]
    pub fn stop_rule() {
        let k: usize = kani::any();
        let n: usize = kani::any();
        let max: u64 = kani::any();
        let factor: u64 = kani::any();
        // k * factor must be representable: larger products are outside the claim
        kani::assume(k <= (1usize << 31) && factor <= (1u64 << 32));
        let e = K::Exact.terminate_search(k, n);
        let m = K::MaxIteration { max }.terminate_search(k, n);
        let f = K::Factor { factor }.terminate_search(k, n);
        kani::cover!(e, "exact fires");
        kani::cover!(m, "max fires");
        kani::cover!(f, "factor fires");
        kani::cover!(!e && n < k, "still searching");
        assert!(e == (n == k), "Exact stops when k routes were found");
        assert!(!m || n == k, "MaxIteration never stops before k routes");
        assert!(!f || n == k, "Factor never stops before k routes");
        assert!(matches!(K::default(), K::Exact));
    }

    /// k comes from the configuration when the query does not carry one
    #[kani::proof]
    #[kani::stub(std::fmt::format, stub_format)]
    #[kani::unwind(4)]
    pub fn ksp_query_default_k() {
        let kd: usize = kani::any();
        let s: usize = kani::any();
        let t: usize = kani::any();
        let query = serde_json::Value::Null;
        let r = KspQuery::new(VertexId(s), VertexId(t), &query, kd);
        kani::cover!(r.is_ok(), "query accepted");
        let r = r.unwrap();
        assert!(r.k == kd && r.source == VertexId(s) && r.target == VertexId(t));
    }
}
