//! C01 - routes are contiguous walks, trees are rooted trees: kernels.
//!
//! (1) orientation: for ANY edge and both directions, the vertex a tree entry is keyed by is the
//!     far end of the edge and the recorded parent ("terminal") vertex is the near end - so a
//!     branch `(key -> {terminal, edge})` built the way the search loop builds it records an edge
//!     that really joins the parent to the entry's own vertex in search direction.
//! (2) backtrack: for an ARBITRARY edge table and an ARBITRARY partial tree whose entries are
//!     consistent with it (parent cycles and missing entries allowed), `vertex_oriented_route`
//!     returns exactly what following parents gives: the contiguous, repeat-free walk from the
//!     origin to the destination, or an error - never a malformed route.
//! That `run_a_star` only inserts consistent branches and never closes a parent cycle needs the
//! search loop, which could not be encoded: NOT decided.
//!
//! Needs hook H1 in the search modules (the tree type `HashMap<VertexId, SearchTreeBranch>`).

use crate::util::*;
use routee_compass_core::algorithm::search::backtrack;
use routee_compass_core::algorithm::search::direction::Direction;
use routee_compass_core::algorithm::search::edge_traversal::EdgeTraversal;
use routee_compass_core::algorithm::search::search_tree_branch::SearchTreeBranch;
use routee_compass_core::model::network::{Edge, EdgeId, VertexId};
use routee_compass_core::model::unit::Cost;
use routee_compass_core::util::verif_collections::HashMap as TableMap;

fn orientation(forward: bool) {
    let e = Edge::new(kani::any(), kani::any(), kani::any(), 1.0);
    let d = if forward { Direction::Forward } else { Direction::Reverse };
    let key = d.tree_key_vertex_id(&e);
    let parent = d.terminal_vertex_id(&e);
    kani::cover!(e.src_vertex_id != e.dst_vertex_id, "proper edge");
    kani::cover!(e.src_vertex_id == e.dst_vertex_id, "self loop");
    if forward {
        assert!(parent == e.src_vertex_id && key == e.dst_vertex_id, "forward: the edge leads from the parent to the entry's vertex");
    } else {
        assert!(parent == e.dst_vertex_id && key == e.src_vertex_id, "reverse: the edge leads from the entry's vertex to the parent");
    }
}

fn branch(parent: usize, edge: usize) -> SearchTreeBranch {
    SearchTreeBranch {
        terminal_vertex: VertexId(parent),
        edge_traversal: EdgeTraversal {
            edge_id: EdgeId(edge),
            access_cost: Cost::ZERO,
            traversal_cost: Cost::ZERO,
            result_state: Vec::new(),
        },
    }
}

/// NV vertices, NE edges with symbolic end points, arbitrary consistent partial tree (forward orientation)
fn backtrack_any_tree<const NV: usize, const NE: usize>() {
    let src: [usize; NE] = kani::any();
    let dst: [usize; NE] = kani::any();
    let mut i = 0;
    while i < NE {
        kani::assume(src[i] < NV && dst[i] < NV);
        i += 1;
    }
    // entry[v] = Some(e): vertex v was reached over edge e (so dst[e] == v, parent = src[e])
    let has: [bool; NV] = kani::any();
    let via: [usize; NV] = kani::any();
    let mut tree: TableMap<VertexId, SearchTreeBranch> = TableMap::new();
    let mut v = 0;
    while v < NV {
        if has[v] {
            kani::assume(via[v] < NE && dst[via[v]] == v);
            tree.insert(VertexId(v), branch(src[via[v]], via[v]));
        }
        v += 1;
    }
    let s: usize = kani::any();
    let t: usize = kani::any();
    kani::assume(s < NV && t < NV && s != t);

    // oracle: follow parents from t, at most NV + 1 steps
    let mut path: [usize; NV] = [usize::MAX; NV];
    let mut n = 0;
    let mut cur = t;
    let mut ok = false;
    let mut bad = false;
    let mut step = 0;
    while step <= NV {
        if !ok && !bad {
            if cur == s {
                ok = true;
            } else if !has[cur] {
                bad = true;
            } else {
                let e = via[cur];
                let mut seen = false;
                let mut k = 0;
                while k < NV {
                    if k < n && path[k] == e {
                        seen = true;
                    }
                    k += 1;
                }
                if seen || n == NV {
                    bad = true;
                } else {
                    path[n] = e;
                    n += 1;
                    cur = src[e];
                }
            }
        }
        step += 1;
    }
    let r = backtrack::vertex_oriented_route(VertexId(s), VertexId(t), &tree);
    kani::cover!(r.is_ok() && n == 1, "one-edge route");
    kani::cover!(NV < 3 || (r.is_ok() && n >= 2), "route of several edges (needs three vertices)");
    kani::cover!(r.is_err() && bad, "broken or cyclic tree is rejected");
    if ok {
        assert!(r.is_ok(), "a tree that leads from the destination back to the origin yields a route");
        let route = r.unwrap();
        assert!(route.len() == n, "the route has one entry per tree step");
        // origin-to-destination order = reverse of the walk up the tree
        let mut i = 0;
        while i < NV {
            if i < n {
                let e = route[i].edge_id.0;
                assert!(e == path[n - 1 - i], "route order is origin to destination");
                if i == 0 {
                    assert!(src[e] == s, "the first edge leaves the origin");
                }
                if i + 1 < n {
                    assert!(dst[e] == src[route[i + 1].edge_id.0], "every edge starts where the previous one ended");
                }
                if i + 1 == n {
                    assert!(dst[e] == t, "the last edge arrives at the destination");
                }
                let mut j = 0;
                while j < NV {
                    if j < n && j != i {
                        assert!(route[j].edge_id.0 != e, "no edge occurs twice");
                    }
                    j += 1;
                }
            }
            i += 1;
        }
        std::mem::forget(route);
    } else {
        assert!(r.is_err(), "a broken or cyclic tree yields an error, never a malformed route");
        std::mem::forget(r);
    }
    std::mem::forget(tree);
}

pub mod q {
    use super::*;
    #[kani::proof]
    pub fn orientation_forward() { orientation(true) }
    #[kani::proof]
    pub fn orientation_reverse() { orientation(false) }
    #[kani::proof]
    #[kani::stub(std::fmt::format, stub_format)]
    #[kani::unwind(5)]
    pub fn backtrack_v2_e2() { backtrack_any_tree::<2, 2>() }
}

pub mod t {
    use super::*;
    #[kani::proof]
    #[kani::stub(std::fmt::format, stub_format)]
    #[kani::unwind(6)]
    pub fn backtrack_v3_e2() { backtrack_any_tree::<3, 2>() }
    #[kani::proof]
    #[kani::stub(std::fmt::format, stub_format)]
    #[kani::unwind(6)]
    pub fn backtrack_v3_e3() { backtrack_any_tree::<3, 3>() }
    #[kani::proof]
    #[kani::stub(std::fmt::format, stub_format)]
    #[kani::unwind(7)]
    pub fn backtrack_v4_e4() { backtrack_any_tree::<4, 4>() }
}
