//! loop-level harnesses: the REAL `run_a_star` on small graphs (probe stage)

use crate::fixtures::*;
use crate::util::*;
use routee_compass_core::algorithm::search::a_star::a_star_algorithm::run_a_star;
use routee_compass_core::algorithm::search::direction::Direction;
use routee_compass_core::algorithm::search::search_error::SearchError;
use routee_compass_core::algorithm::search::search_instance::SearchInstance;
use routee_compass_core::model::cost::cost_aggregation::CostAggregation;
use routee_compass_core::model::cost::cost_model::CostModel;
use routee_compass_core::model::frontier::frontier_model::FrontierModel;
use routee_compass_core::model::frontier::frontier_model_error::FrontierModelError;
use routee_compass_core::model::network::{Edge, EdgeId, Graph, Vertex, VertexId};
use routee_compass_core::model::state::state_model::StateModel;
use routee_compass_core::model::termination::termination_model::TerminationModel;
use routee_compass_core::model::traversal::state::state_variable::StateVar;
use routee_compass_core::util::compact_ordered_hash_map::CompactOrderedHashMap as M;
use std::sync::Arc;

pub struct Mask<const E: usize> {
    pub allowed: [bool; E],
}
impl<const E: usize> FrontierModel for Mask<E> {
    fn valid_frontier(&self, e: &Edge, _s: &[StateVar], _p: Option<&Edge>, _sm: &StateModel) -> Result<bool, FrontierModelError> {
        Ok(self.allowed[e.edge_id.0])
    }
}

pub struct NoOpTraverse;
impl routee_compass_core::model::traversal::traversal_model::TraversalModel for NoOpTraverse {
    fn state_features(&self) -> Vec<(String, routee_compass_core::model::state::state_feature::StateFeature)> {
        vec![]
    }
    fn traverse_edge(&self, _t: (&Vertex, &Edge, &Vertex), _state: &mut Vec<StateVar>, _sm: &StateModel) -> Result<(), routee_compass_core::model::traversal::traversal_model_error::TraversalModelError> {
        Ok(())
    }
    fn estimate_traversal(&self, _od: (&Vertex, &Vertex), _state: &mut Vec<StateVar>, _sm: &StateModel) -> Result<(), routee_compass_core::model::traversal::traversal_model_error::TraversalModelError> {
        Ok(())
    }
}
pub struct NoOpAccess;
impl routee_compass_core::model::access::access_model::AccessModel for NoOpAccess {
    fn state_features(&self) -> Vec<(String, routee_compass_core::model::state::state_feature::StateFeature)> {
        vec![]
    }
    fn access_edge(&self, _t: (&Vertex, &Edge, &Vertex, &Edge, &Vertex), _state: &mut Vec<StateVar>, _sm: &StateModel) -> Result<(), routee_compass_core::model::access::access_model_error::AccessModelError> {
        Ok(())
    }
}

fn vtx(i: usize) -> Vertex {
    Vertex::new(i, i as f32, 0.0)
}

fn inst<const E: usize>(g: Graph, allowed: [bool; E], limit: u64) -> SearchInstance {
    SearchInstance {
        directed_graph: Arc::new(g),
        state_model: Arc::new(StateModel::new(vec![])),
        traversal_model: Arc::new(NoOpTraverse),
        access_model: Arc::new(NoOpAccess),
        cost_model: Arc::new(CostModel::verif_from_parts(Vec::new(), Vec::new(), Vec::new(), Vec::new(), CostAggregation::Sum)),
        frontier_model: Arc::new(Mask::<E> { allowed }),
        termination_model: Arc::new(TerminationModel::IterationsLimit { limit }),
    }
}

#[repr(C)]
struct RawInstant {
    tv_sec: i64,
    tv_nsec: u32,
}
/// stub for `Instant::now`: a fixed instant (the iteration limit is the only limit in these harnesses)
pub fn stub_now_fixed() -> std::time::Instant {
    unsafe { std::mem::transmute::<RawInstant, std::time::Instant>(RawInstant { tv_sec: 1, tv_nsec: 0 }) }
}

fn g2() -> Graph {
    let adj: [M<EdgeId, VertexId>; 2] = [M::OneEntry { k1: k(0), v1: v(1) }, M::empty()];
    let rev: [M<EdgeId, VertexId>; 2] = [M::empty(), M::OneEntry { k1: k(0), v1: v(0) }];
    Graph { adj: Box::new(adj), rev: Box::new(rev), edges: Box::new([Edge::new(0, 0, 1, 1.0)]), vertices: Box::new([vtx(0), vtx(1)]) }
}

pub mod m {
    use super::*;
    use routee_compass_core::algorithm::search::edge_traversal::EdgeTraversal;
    #[kani::proof]
    #[kani::unwind(4)]
    #[kani::stub(std::fmt::format, stub_format)]
    pub fn m1_initial_state() {
        let si = inst(g2(), [true], 100);
        let r = si.state_model.initial_state();
        assert!(r.is_ok());
        std::mem::forget(r);
        std::mem::forget(si);
    }
    #[kani::proof]
    #[kani::unwind(4)]
    #[kani::stub(std::fmt::format, stub_format)]
    pub fn m2_estimate() {
        let si = inst(g2(), [true], 100);
        let r = si.estimate_traversal_cost(v(0), v(1), &[]);
        assert!(r.is_ok());
        std::mem::forget(r);
        std::mem::forget(si);
    }
    #[kani::proof]
    #[kani::unwind(4)]
    #[kani::stub(std::fmt::format, stub_format)]
    pub fn m3_forward() {
        let si = inst(g2(), [true], 100);
        let r = EdgeTraversal::forward_traversal(k(0), None, &[], &si);
        assert!(r.is_ok());
        std::mem::forget(r);
        std::mem::forget(si);
    }
    #[kani::proof]
    #[kani::unwind(4)]
    #[kani::stub(std::fmt::format, stub_format)]
    pub fn m4_out_edges() {
        let si = inst(g2(), [true], 100);
        let mut n = 0;
        for e in Direction::Forward.get_incident_edges(&v(0), &si) {
            assert!(*e == k(0));
            n += 1;
        }
        assert!(n == 1);
        std::mem::forget(si);
    }
    #[kani::proof]
    #[kani::unwind(4)]
    #[kani::stub(std::fmt::format, stub_format)]
    pub fn m5_termination() {
        let si = inst(g2(), [true], 100);
        let t = stub_now_fixed();
        let r = si.termination_model.test(&t, 1, 2);
        assert!(r.is_ok());
        std::mem::forget(r);
        std::mem::forget(si);
    }
}

fn k(i: usize) -> EdgeId { EdgeId(i) }
fn v(i: usize) -> VertexId { VertexId(i) }

pub mod p {
    use super::*;

    /// 0 -e0-> 1
    #[kani::proof]
    #[kani::unwind(4)]
    #[kani::stub(std::fmt::format, stub_format)]
    #[kani::stub(std::time::Instant::now, stub_now_fixed)]
    pub fn p0_two_vertices() {
        let adj: [M<EdgeId, VertexId>; 2] = [M::OneEntry { k1: k(0), v1: v(1) }, M::empty()];
        let rev: [M<EdgeId, VertexId>; 2] = [M::empty(), M::OneEntry { k1: k(0), v1: v(0) }];
        let g = Graph { adj: Box::new(adj), rev: Box::new(rev), edges: Box::new([Edge::new(0, 0, 1, 1.0)]), vertices: Box::new([vtx(0), vtx(1)]) };
        let allowed: [bool; 1] = kani::any();
        let si = inst(g, allowed, 100);
        let r = run_a_star(v(0), Some(v(1)), &Direction::Forward, None, &si);
        kani::cover!(r.is_ok(), "route found");
        kani::cover!(r.is_err(), "no path");
        match &r {
            Ok(res) => {
                assert!(allowed[0]);
                assert!(res.tree.len() == 1);
                let b = res.tree.get(&v(1)).unwrap();
                assert!(b.terminal_vertex == v(0) && b.edge_traversal.edge_id == k(0));
            }
            Err(e) => {
                assert!(!allowed[0]);
                assert!(matches!(e, SearchError::NoPathExistsBetweenVertices(_, _)));
            }
        }
        std::mem::forget(r);
        std::mem::forget(si);
    }

    /// 0 -e0-> 1 -e1-> 2, 0 -e2-> 2, 2 -e3-> 1 ; tree search from 0
    #[kani::proof]
    #[kani::unwind(6)]
    #[kani::stub(std::fmt::format, stub_format)]
    #[kani::stub(std::time::Instant::now, stub_now_fixed)]
    pub fn p1_three_vertices_tree() {
        let adj: [M<EdgeId, VertexId>; 3] = [
            M::TwoEntries { k1: k(0), k2: k(2), v1: v(1), v2: v(2) },
            M::OneEntry { k1: k(1), v1: v(2) },
            M::OneEntry { k1: k(3), v1: v(1) },
        ];
        let rev: [M<EdgeId, VertexId>; 3] = [
            M::empty(),
            M::TwoEntries { k1: k(0), k2: k(3), v1: v(0), v2: v(2) },
            M::TwoEntries { k1: k(1), k2: k(2), v1: v(1), v2: v(0) },
        ];
        let edges = [Edge::new(0, 0, 1, 1.0), Edge::new(1, 1, 2, 1.0), Edge::new(2, 0, 2, 1.0), Edge::new(3, 2, 1, 1.0)];
        let g = Graph { adj: Box::new(adj), rev: Box::new(rev), edges: Box::new(edges), vertices: Box::new([vtx(0), vtx(1), vtx(2)]) };
        let allowed: [bool; 4] = kani::any();
        let si = inst(g, allowed, 100);
        let r = run_a_star(v(0), None, &Direction::Forward, None, &si);
        kani::cover!(r.is_ok(), "tree returned");
        assert!(r.is_ok());
        if let Ok(res) = &r {
            let reach1 = allowed[0] || (allowed[2] && allowed[3]);
            let reach2 = allowed[2] || (allowed[0] && allowed[1]);
            assert!(res.tree.contains_key(&v(1)) == reach1);
            assert!(res.tree.contains_key(&v(2)) == reach2);
            assert!(!res.tree.contains_key(&v(0)));
        }
        std::mem::forget(r);
        std::mem::forget(si);
    }
}

// ---------------------------------------------------------------------------------------------
// assume-guarantee stubs for the callees of `run_a_star` that are decided on their own elsewhere
// ---------------------------------------------------------------------------------------------
pub const MAXV: usize = 4;
pub const MAXD: usize = 3;
pub const MAXE: usize = 6;
pub static mut OUT: [[EdgeId; MAXD]; MAXV] = [[EdgeId(0); MAXD]; MAXV];
pub static mut DEG_OUT: [usize; MAXV] = [0; MAXV];
pub static mut INN: [[EdgeId; MAXD]; MAXV] = [[EdgeId(0); MAXD]; MAXV];
pub static mut DEG_IN: [usize; MAXV] = [0; MAXV];
pub static mut EDGE_COST: [f64; MAXE] = [1.0; MAXE];
pub static mut HEUR: [f64; MAXV] = [0.0; MAXV];

/// stub for `Direction::get_incident_edges` (contract: C15 - exactly the listed edges leaving /
/// entering the vertex, in insertion order)
pub fn stub_incident<'a>(d: &'a Direction, vertex_id: &VertexId, _si: &'a SearchInstance) -> Box<dyn Iterator<Item = &'a EdgeId> + 'a> {
    unsafe {
        let i = vertex_id.0;
        match d {
            Direction::Forward => Box::new(OUT[i][..DEG_OUT[i]].iter()),
            Direction::Reverse => Box::new(INN[i][..DEG_IN[i]].iter()),
        }
    }
}

/// stub for `Direction::perform_edge_traversal` (contract: C07 - a finite, strictly positive cost
/// per edge; state vectors are empty in these harnesses)
pub fn stub_traverse(_d: &Direction, edge_id: EdgeId, _last: Option<EdgeId>, _start: &[StateVar], _si: &SearchInstance) -> Result<routee_compass_core::algorithm::search::edge_traversal::EdgeTraversal, SearchError> {
    use routee_compass_core::model::unit::Cost;
    Ok(routee_compass_core::algorithm::search::edge_traversal::EdgeTraversal {
        edge_id,
        access_cost: Cost::ZERO,
        traversal_cost: Cost::new(unsafe { EDGE_COST[edge_id.0] }),
        result_state: Vec::new(),
    })
}

/// stub for `SearchInstance::estimate_traversal_cost` (contract: C07 - finite and non-negative)
pub fn stub_estimate(_si: &SearchInstance, src: VertexId, _dst: VertexId, _state: &[StateVar]) -> Result<routee_compass_core::model::unit::Cost, SearchError> {
    Ok(routee_compass_core::model::unit::Cost::new(unsafe { HEUR[src.0] }))
}

fn set_graph3() -> Graph {
    // 0 -e0-> 1 -e1-> 2, 0 -e2-> 2, 2 -e3-> 1
    unsafe {
        OUT[0] = [k(0), k(2), k(0)]; DEG_OUT[0] = 2;
        OUT[1] = [k(1), k(0), k(0)]; DEG_OUT[1] = 1;
        OUT[2] = [k(3), k(0), k(0)]; DEG_OUT[2] = 1;
        INN[1] = [k(0), k(3), k(0)]; DEG_IN[1] = 2;
        INN[2] = [k(1), k(2), k(0)]; DEG_IN[2] = 2;
    }
    let edges = [Edge::new(0, 0, 1, 1.0), Edge::new(1, 1, 2, 1.0), Edge::new(2, 0, 2, 1.0), Edge::new(3, 2, 1, 1.0)];
    Graph { adj: Box::new([]), rev: Box::new([]), edges: Box::new(edges), vertices: Box::new([vtx(0), vtx(1), vtx(2)]) }
}

pub mod s {
    use super::*;

    #[kani::proof]
    #[kani::unwind(5)]
    #[kani::stub(std::fmt::format, stub_format)]
    #[kani::stub(std::time::Instant::now, stub_now_fixed)]
    #[kani::stub(routee_compass_core::algorithm::search::direction::Direction::get_incident_edges, stub_incident)]
    #[kani::stub(routee_compass_core::algorithm::search::direction::Direction::perform_edge_traversal, stub_traverse)]
    #[kani::stub(routee_compass_core::algorithm::search::search_instance::SearchInstance::estimate_traversal_cost, stub_estimate)]
    pub fn s0_two_vertices() {
        unsafe { OUT[0] = [k(0), k(0), k(0)]; DEG_OUT[0] = 1; INN[1] = [k(0), k(0), k(0)]; DEG_IN[1] = 1; }
        let g = Graph { adj: Box::new([]), rev: Box::new([]), edges: Box::new([Edge::new(0, 0, 1, 1.0)]), vertices: Box::new([vtx(0), vtx(1)]) };
        let allowed: [bool; 1] = kani::any();
        let si = inst(g, allowed, 100);
        let r = run_a_star(v(0), Some(v(1)), &Direction::Forward, None, &si);
        kani::cover!(r.is_ok(), "route found");
        kani::cover!(r.is_err(), "no path");
        match &r {
            Ok(res) => {
                assert!(allowed[0]);
                assert!(res.tree.len() == 1);
                let b = res.tree.get(&v(1)).unwrap();
                assert!(b.terminal_vertex == v(0) && b.edge_traversal.edge_id == k(0));
            }
            Err(e) => {
                assert!(!allowed[0]);
                assert!(matches!(e, SearchError::NoPathExistsBetweenVertices(_, _)));
            }
        }
        std::mem::forget(r);
        std::mem::forget(si);
    }

    #[kani::proof]
    #[kani::unwind(6)]
    #[kani::stub(std::fmt::format, stub_format)]
    #[kani::stub(std::time::Instant::now, stub_now_fixed)]
    #[kani::stub(routee_compass_core::algorithm::search::direction::Direction::get_incident_edges, stub_incident)]
    #[kani::stub(routee_compass_core::algorithm::search::direction::Direction::perform_edge_traversal, stub_traverse)]
    #[kani::stub(routee_compass_core::algorithm::search::search_instance::SearchInstance::estimate_traversal_cost, stub_estimate)]
    pub fn s1_three_vertices_tree() {
        let g = set_graph3();
        let allowed: [bool; 4] = kani::any();
        let si = inst(g, allowed, 100);
        let r = run_a_star(v(0), None, &Direction::Forward, None, &si);
        kani::cover!(r.is_ok(), "tree returned");
        assert!(r.is_ok());
        if let Ok(res) = &r {
            let reach1 = allowed[0] || (allowed[2] && allowed[3]);
            let reach2 = allowed[2] || (allowed[0] && allowed[1]);
            assert!(res.tree.contains_key(&v(1)) == reach1);
            assert!(res.tree.contains_key(&v(2)) == reach2);
            assert!(!res.tree.contains_key(&v(0)));
        }
        std::mem::forget(r);
        std::mem::forget(si);
    }
}
