//! C11 (and C15's adjacency container) - the insertion-ordered key/value container behind the
//! state model and the graph adjacency lists, one step at a time.
//!
//! Method: ONE `insert(k, v)` with a fully symbolic key from a valid pre-state of EVERY
//! representation (empty, One..Four, N5, N6, N7). Representation invariant R(m): keys pairwise
//! distinct and the stored indices are exactly 0..len-1. The pre-state has concrete distinct keys
//! (keys only enter the code through `==`), a scrambled slot order in the table model and symbolic
//! values; the solver covers "hit at each position" and "miss" in one query. Every public
//! operation is either an observer or `insert`, so histories of any length that stay within 8
//! entries are covered step by step.
//!
//! Needs hook H1: `NEntries` holds a `HashMap`, which under `cfg(kani)` + feature verif-models is
//! the fixed-capacity table model of routee-compass-core/src/util/verif_collections.rs.

use crate::util::*;
use routee_compass_core::model::network::{EdgeId, VertexId};
use routee_compass_core::util::compact_ordered_hash_map::{CompactOrderedHashMap as M, IndexedEntry};
use routee_compass_core::util::verif_collections::{HashMap as TableMap, CAP};

type EM = M<EdgeId, VertexId>;

/// concrete distinct keys of the pre-state, in index (= insertion) order
pub const KEYS: [usize; 7] = [40, 7, 93, 12, 58, 3, 71];
/// slot order of the table model for the NEntries pre-states (a fixed scramble: the map's own
/// iteration order must not matter)
const SCRAMBLE: [usize; 7] = [3, 0, 6, 1, 5, 2, 4];

fn pre_state(n: usize, vals: &[usize; 7]) -> EM {
    let k = |i: usize| EdgeId(KEYS[i]);
    let v = |i: usize| VertexId(vals[i]);
    match n {
        0 => M::empty(),
        1 => M::OneEntry { k1: k(0), v1: v(0) },
        2 => M::TwoEntries { k1: k(0), k2: k(1), v1: v(0), v2: v(1) },
        3 => M::ThreeEntries { k1: k(0), k2: k(1), k3: k(2), v1: v(0), v2: v(1), v3: v(2) },
        4 => M::FourEntries { k1: k(0), k2: k(1), k3: k(2), k4: k(3), v1: v(0), v2: v(1), v3: v(2), v4: v(3) },
        _ => {
            let mut slots: [Option<(EdgeId, IndexedEntry<VertexId>)>; CAP] = [const { None }; CAP];
            let mut s = 0;
            let mut j = 0;
            while j < 7 {
                let i = SCRAMBLE[j];
                if i < n {
                    slots[s] = Some((k(i), IndexedEntry::new(v(i), i)));
                    s += 1;
                }
                j += 1;
            }
            M::NEntries(TableMap::from_slots(slots, n))
        }
    }
}

/// position of `key` among the first n pre-state keys
fn pos_of(key: usize, n: usize) -> Option<usize> {
    let mut i = 0;
    while i < n {
        if KEYS[i] == key {
            return Some(i);
        }
        i += 1;
    }
    None
}

/// one insert step from the n-entry pre-state; checks the post-state through the O(1)/scan observers
fn step(n: usize) {
    let vals: [usize; 7] = kani::any();
    let mut m = pre_state(n, &vals);
    assert!(m.len() == n);
    let key: usize = kani::any();
    let val: usize = kani::any();
    let hit = pos_of(key, n);
    let old = m.insert(EdgeId(key), VertexId(val));
    kani::cover!(hit.is_none(), "miss: a new key is appended");
    kani::cover!(n == 0 || hit.is_some(), "hit: an existing key is overwritten");
    kani::cover!(n == 0 || hit == Some(n - 1), "hit on the last entry");
    match hit {
        None => {
            assert!(old.is_none(), "miss returns None");
            assert!(m.len() == n + 1, "miss grows the map by one");
            assert!(m.get_index(&EdgeId(key)) == Some(n), "a new key takes the next index (= old len)");
            assert!(m.get(&EdgeId(key)) == Some(&VertexId(val)));
            let p = m.get_pair(n);
            assert!(p.is_some(), "the new entry is retrievable by its index");
            let (pk, pv) = p.unwrap();
            assert!(*pk == EdgeId(key) && *pv == VertexId(val));
        }
        Some(i) => {
            assert!(old == Some(VertexId(vals[i])), "hit returns the old value");
            assert!(m.len() == n, "hit keeps the size");
            assert!(m.get_index(&EdgeId(key)) == Some(i), "hit keeps the index");
            assert!(m.get(&EdgeId(key)) == Some(&VertexId(val)), "hit replaces the value");
        }
    }
    // every old key keeps its index, and its value unless it was the one overwritten
    let mut i = 0;
    while i < n {
        let ki = EdgeId(KEYS[i]);
        assert!(m.get_index(&ki) == Some(i), "old keys keep their index");
        let expect = if hit == Some(i) { val } else { vals[i] };
        assert!(m.get(&ki) == Some(&VertexId(expect)), "old keys keep their value");
        let p = m.get_pair(i);
        assert!(p.is_some(), "indices 0..len-1 are all occupied");
        let (pk, pv) = p.unwrap();
        assert!(*pk == ki && *pv == VertexId(expect), "get_pair agrees with get_index / get");
        i += 1;
    }
    let post = m.len();
    assert!(m.get_pair(post).is_none(), "no entry at index len");
    assert!(m.contains_key(&EdgeId(key)));
    assert!(!m.is_empty());
    std::mem::forget(m);
}

/// the iterating observers on the post-state: exactly len entries, in index order.
/// `next()` is called a CONCRETE number of times (n + 2): a `for` loop over the iterator has a
/// symbolic trip count and is unrolled to the global bound (no verdict in 480 s).
fn step_iter(n: usize) {
    let vals: [usize; 7] = kani::any();
    let mut m = pre_state(n, &vals);
    let key: usize = kani::any();
    let val: usize = kani::any();
    let hit = pos_of(key, n);
    let _ = m.insert(EdgeId(key), VertexId(val));
    let post = if hit.is_some() { n } else { n + 1 };
    kani::cover!(hit.is_none(), "miss");
    kani::cover!(n == 0 || hit.is_some(), "hit");
    {
        let mut it = m.iter();
        let mut i = 0;
        while i < n + 2 {
            let x = it.next();
            if i < post {
                assert!(x.is_some(), "iter() yields len entries");
                let (k, v) = x.unwrap();
                let (ek, ev) = if i < n {
                    (KEYS[i], if hit == Some(i) { val } else { vals[i] })
                } else {
                    (key, val)
                };
                assert!(*k == EdgeId(ek) && *v == VertexId(ev), "iter() yields entries in index order");
            } else {
                assert!(x.is_none(), "iter() stops after len entries");
            }
            i += 1;
        }
        std::mem::forget(it);
    }
    std::mem::forget(m);
}

macro_rules! steps {
    ($($name:ident, $iname:ident, $n:expr);*) => {
        $(
            #[kani::proof]
            #[kani::unwind(40)]
            pub fn $name() { step($n) }
        )*
    };
}

pub mod q {
    use super::*;
    steps!(step_empty, iter_empty, 0; step_one, iter_one, 1; step_two, iter_two, 2; step_three, iter_three, 3;
           step_four, iter_four, 4; step_n5, iter_n5, 5; step_n6, iter_n6, 6; step_n7, iter_n7, 7);
}

macro_rules! iters {
    ($($iname:ident, $n:expr);*) => {
        $(
            #[kani::proof]
            #[kani::unwind(40)]
            pub fn $iname() { step_iter($n) }
        )*
    };
}

pub mod qi {
    use super::*;
    iters!(iter_empty, 0; iter_two, 2; iter_four, 4; iter_n5, 5; iter_n6, 6);
}
