//! a tiny search instance with harness-defined models behind the repository's own traits:
//! chain graph 0 -[e0]-> 1 -[e1]-> 2 -[e2]-> 3, one-slot state vectors, a traversal model adding a
//! symbolic amount to slot 0, an access model adding another symbolic amount and RECORDING the
//! trajectory it was handed, a cost model (hook H2) with one Raw feature of weight 1.

use routee_compass_core::algorithm::search::search_instance::SearchInstance;
use routee_compass_core::model::access::access_model::AccessModel;
use routee_compass_core::model::access::access_model_error::AccessModelError;
use routee_compass_core::model::cost::cost_aggregation::CostAggregation;
use routee_compass_core::model::cost::cost_model::CostModel;
use routee_compass_core::model::cost::network::network_cost_rate::NetworkCostRate;
use routee_compass_core::model::cost::vehicle::vehicle_cost_rate::VehicleCostRate;
use routee_compass_core::model::frontier::frontier_model::FrontierModel;
use routee_compass_core::model::frontier::frontier_model_error::FrontierModelError;
use routee_compass_core::model::network::{Edge, Graph, Vertex};
use routee_compass_core::model::state::state_feature::StateFeature;
use routee_compass_core::model::state::state_model::StateModel;
use routee_compass_core::model::termination::termination_model::TerminationModel;
use routee_compass_core::model::traversal::state::state_variable::StateVar;
use routee_compass_core::model::traversal::traversal_model::TraversalModel;
use routee_compass_core::model::traversal::traversal_model_error::TraversalModelError;
use std::sync::Arc;

pub struct AddOnTraverse {
    pub amount: f64,
}
impl TraversalModel for AddOnTraverse {
    fn state_features(&self) -> Vec<(String, StateFeature)> {
        vec![]
    }
    fn traverse_edge(&self, _t: (&Vertex, &Edge, &Vertex), state: &mut Vec<StateVar>, _sm: &StateModel) -> Result<(), TraversalModelError> {
        state[0] = StateVar(state[0].0 + self.amount);
        Ok(())
    }
    fn estimate_traversal(&self, _od: (&Vertex, &Vertex), _state: &mut Vec<StateVar>, _sm: &StateModel) -> Result<(), TraversalModelError> {
        Ok(())
    }
}

/// what the access model was last called with: (v1, e1, v2, e2, v3) ids, and the call count
pub static mut ACCESS_SEEN: [usize; 5] = [usize::MAX; 5];
pub static mut ACCESS_CALLS: usize = 0;

pub struct AddOnAccess {
    pub amount: f64,
}
impl AccessModel for AddOnAccess {
    fn state_features(&self) -> Vec<(String, StateFeature)> {
        vec![]
    }
    fn access_edge(&self, t: (&Vertex, &Edge, &Vertex, &Edge, &Vertex), state: &mut Vec<StateVar>, _sm: &StateModel) -> Result<(), AccessModelError> {
        unsafe {
            ACCESS_SEEN = [t.0.vertex_id.0, t.1.edge_id.0, t.2.vertex_id.0, t.3.edge_id.0, t.4.vertex_id.0];
            ACCESS_CALLS += 1;
        }
        state[0] = StateVar(state[0].0 + self.amount);
        Ok(())
    }
}

pub struct PermitAll;
impl FrontierModel for PermitAll {
    fn valid_frontier(&self, _e: &Edge, _s: &[StateVar], _p: Option<&Edge>, _sm: &StateModel) -> Result<bool, FrontierModelError> {
        Ok(true)
    }
}

pub fn chain_graph() -> Graph {
    let edges: [Edge; 3] = [Edge::new(0, 0, 1, 1.0), Edge::new(1, 1, 2, 1.0), Edge::new(2, 2, 3, 1.0)];
    let vertices: [Vertex; 4] = [Vertex::new(0, 0.0, 0.0), Vertex::new(1, 1.0, 0.0), Vertex::new(2, 2.0, 0.0), Vertex::new(3, 3.0, 0.0)];
    Graph { adj: Box::new([]), rev: Box::new([]), edges: Box::new(edges), vertices: Box::new(vertices) }
}

pub fn instance(on_access: f64, on_traverse: f64) -> SearchInstance {
    instance_with(on_access, on_traverse, true)
}

/// `with_cost_feature = false`: a cost model without features (every cost is the floor), which
/// keeps the cost kernels out of harnesses that are about state and trajectory only
pub fn instance_with(on_access: f64, on_traverse: f64, with_cost_feature: bool) -> SearchInstance {
    unsafe {
        ACCESS_SEEN = [usize::MAX; 5];
        ACCESS_CALLS = 0;
    }
    let cost = if with_cost_feature {
        CostModel::verif_from_parts(
            vec![(String::new(), 0)],
            vec![1.0],
            vec![VehicleCostRate::Raw],
            vec![NetworkCostRate::Zero],
            CostAggregation::Sum,
        )
    } else {
        CostModel::verif_from_parts(Vec::new(), Vec::new(), Vec::new(), Vec::new(), CostAggregation::Sum)
    };
    SearchInstance {
        directed_graph: Arc::new(chain_graph()),
        state_model: Arc::new(StateModel::new(vec![])),
        traversal_model: Arc::new(AddOnTraverse { amount: on_traverse }),
        access_model: Arc::new(AddOnAccess { amount: on_access }),
        cost_model: Arc::new(cost),
        frontier_model: Arc::new(PermitAll),
        termination_model: Arc::new(TerminationModel::IterationsLimit { limit: 100 }),
    }
}
