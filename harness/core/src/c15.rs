//! C15 - the loaded network exposes exactly the listed topology: from the container inwards.
//!
//! The loader proper (CSV / gzip parsing, header and line counting) is behind `File::open` and is
//! NOT covered. What is decided: a `Graph` whose adjacency containers were filled the way the
//! loader's row callback fills them (`adj[src].insert(edge_id, dst)`, `rev[dst].insert(edge_id,
//! src)`) answers every lookup with the listed row or an error (never a panic), for every id in
//! and out of range, and lists exactly the inserted edges per vertex, in order, at every degree
//! including the container's switch of representation at the fifth edge.

use crate::util::*;
use routee_compass_core::algorithm::search::direction::Direction;
use routee_compass_core::model::network::{Edge, EdgeId, Graph, Vertex, VertexId};
use routee_compass_core::util::compact_ordered_hash_map::CompactOrderedHashMap as M;

const NV: usize = 3;

/// K edges with ids 0..K-1 (row number = id, as the loader requires). `hub_out`: every edge
/// leaves vertex 0 towards a symbolic vertex; otherwise every edge enters vertex 0 from a symbolic
/// vertex. (A symbolic vertex on BOTH ends makes every container access a case split over all
/// vertices: 5 GB, no verdict; the containers of different vertices are independent objects.)
fn graph_with<const K: usize>(hub_out: bool, fill: bool) -> (Graph, [usize; K], [usize; K]) {
    let other: [usize; K] = kani::any();
    let mut src = [0usize; K];
    let mut dst = [0usize; K];
    // fixed-size arrays boxed directly: no Vec growth / shrink-to-fit copies for CBMC to model
    let mut adj: [M<EdgeId, VertexId>; NV] = [M::empty(), M::empty(), M::empty()];
    let mut rev: [M<EdgeId, VertexId>; NV] = [M::empty(), M::empty(), M::empty()];
    let mut edges: [Edge; K] = [Edge::default(); K];
    let mut i = 0;
    while i < K {
        kani::assume(other[i] < NV);
        if hub_out {
            dst[i] = other[i];
        } else {
            src[i] = other[i];
        }
        let e = Edge::new(i, src[i], dst[i], 1.0);
        edges[i] = e;
        i += 1;
    }
    if fill {
        // the hub's container in the state the loader callback's K inserts leave it in
        // (`adj[src].insert(edge_id, dst)` per row). The state is built directly: K chained symbolic
        // inserts (each a mem::swap of the 270-byte enum) did not return in 900 s; that one insert
        // takes every representation to the right successor is C11's inductive step.
        let c = container::<K>(&other);
        if hub_out {
            adj[0] = c;
        } else {
            rev[0] = c;
        }
    }
    let vertices: [Vertex; NV] = [Vertex::new(0, 0.0, 0.0), Vertex::new(1, 1.0, 0.0), Vertex::new(2, 0.0, 1.0)];
    let g = Graph {
        adj: Box::new(adj),
        rev: Box::new(rev),
        edges: Box::new(edges),
        vertices: Box::new(vertices),
    };
    (g, src, dst)
}

/// the adjacency container holding edges 0..K-1 in insertion order with the given far ends
fn container<const K: usize>(far: &[usize; K]) -> M<EdgeId, VertexId> {
    use routee_compass_core::util::compact_ordered_hash_map::IndexedEntry;
    use routee_compass_core::util::verif_collections::{HashMap as TableMap, CAP};
    let k = |i: usize| EdgeId(i);
    let v = |i: usize| VertexId(far[i]);
    match K {
        0 => M::empty(),
        1 => M::OneEntry { k1: k(0), v1: v(0) },
        2 => M::TwoEntries { k1: k(0), k2: k(1), v1: v(0), v2: v(1) },
        3 => M::ThreeEntries { k1: k(0), k2: k(1), k3: k(2), v1: v(0), v2: v(1), v3: v(2) },
        4 => M::FourEntries { k1: k(0), k2: k(1), k3: k(2), k4: k(3), v1: v(0), v2: v(1), v3: v(2), v4: v(3) },
        _ => {
            let mut slots: [Option<(EdgeId, IndexedEntry<VertexId>)>; CAP] = [const { None }; CAP];
            // scrambled slot order: the table's own order must not matter
            let order = [3usize, 0, 6, 1, 5, 2, 4];
            let mut s = 0;
            let mut j = 0;
            while j < 7 {
                let i = order[j];
                if i < K {
                    slots[s] = Some((k(i), IndexedEntry::new(v(i), i)));
                    s += 1;
                }
                j += 1;
            }
            M::NEntries(TableMap::from_slots(slots, K))
        }
    }
}

/// every id lookup returns the listed row or an error.
/// (every `Result` is forgotten, not dropped: the drop glue of `NetworkError` - io / csv error
/// payloads - is what made the first version of this harness explode to 5 GB)
fn lookups<const K: usize>() {
    let (g, src, dst) = graph_with::<K>(true, false);
    let eid: usize = kani::any();
    let vid: usize = kani::any();
    let e = g.get_edge(&EdgeId(eid));
    let v = g.get_vertex(&VertexId(vid));
    kani::cover!(e.is_ok() && v.is_ok(), "both found");
    kani::cover!(e.is_err(), "edge id out of range");
    assert!(e.is_ok() == (eid < K), "an edge is retrievable exactly when it is listed");
    assert!(v.is_ok() == (vid < NV), "a vertex is retrievable exactly when it is listed");
    assert!(g.n_edges() == K && g.n_vertices() == NV);
    let s = g.src_vertex_id(&EdgeId(eid));
    let d = g.dst_vertex_id(&EdgeId(eid));
    let f = g.incident_vertex(&EdgeId(eid), &Direction::Forward);
    let r = g.incident_vertex(&EdgeId(eid), &Direction::Reverse);
    let t = g.edge_triplet(&EdgeId(eid));
    if eid < K {
        if let Ok(e) = &e {
            assert!(e.edge_id.0 == eid && e.src_vertex_id.0 == src[eid] && e.dst_vertex_id.0 == dst[eid], "with its listed end points");
        }
        assert!(matches!(&s, Ok(x) if x.0 == src[eid]));
        assert!(matches!(&d, Ok(x) if x.0 == dst[eid]));
        assert!(matches!(&f, Ok(x) if x.0 == dst[eid]));
        assert!(matches!(&r, Ok(x) if x.0 == src[eid]));
        assert!(matches!(&t, Ok((a, ee, b)) if a.vertex_id.0 == src[eid] && b.vertex_id.0 == dst[eid] && ee.edge_id.0 == eid),
                "the triplet's end points are the edge's own");
    } else {
        assert!(s.is_err() && d.is_err() && f.is_err() && r.is_err() && t.is_err(), "an unlisted id is an error, never a panic");
    }
    if let Ok(v) = &v {
        assert!(v.vertex_id.0 == vid, "vertex rows are aligned with vertex ids");
    }
    std::mem::forget((e, v, s, d, f, r, t));
    std::mem::forget(g);
}

/// out (in) edges of the hub vertex are precisely the listed edges that leave (enter) it, in file
/// order, each paired with its far-end vertex; other vertices and out-of-range ids have none
fn adjacency<const K: usize>(hub_out: bool) {
    let (g, src, dst) = graph_with::<K>(hub_out, true);
    let d = if hub_out { Direction::Forward } else { Direction::Reverse };
    // the iterator form is driven with a CONCRETE number of next() calls; the Vec-returning
    // wrappers (`out_edges` = iter.cloned().collect_vec()) collect a boxed iterator whose size hint
    // is symbolic for CBMC - a heap vector of symbolic capacity, which did not return in 900 s
    {
        let mut it = g.incident_edges_iter(&VertexId(0), &d);
        let mut i = 0;
        while i < K {
            let e = it.next();
            assert!(e.is_some(), "exactly the listed edges, however many there are");
            let e = e.unwrap();
            assert!(e.0 == i, "in file order");
            let far = g.incident_vertex(e, &d);
            assert!(matches!(&far, Ok(v) if v.0 == if hub_out { dst[i] } else { src[i] }), "each with its listed far end");
            std::mem::forget(far);
            i += 1;
        }
        kani::cover!(true, "all listed edges seen");
        assert!(it.next().is_none(), "and no others");
        std::mem::forget(it);
    }
    // ids beyond the vertex table have no edges (no panic)
    {
        let mut none = g.out_edges_iter(&VertexId(NV + kani::any::<u8>() as usize));
        assert!(none.next().is_none());
        std::mem::forget(none);
    }
    std::mem::forget(g);
}

macro_rules! adj_h {
    ($($name:ident => ($k:expr, $out:expr)),*) => {
        $(
            #[kani::proof]
            #[kani::stub(std::fmt::format, stub_format)]
            #[kani::unwind(40)]
            pub fn $name() { adjacency::<$k>($out) }
        )*
    };
}

pub mod q {
    use super::*;
    #[kani::proof]
    #[kani::stub(std::fmt::format, stub_format)]
    #[kani::unwind(5)]
    pub fn lookups_2_edges() { lookups::<2>() }
    adj_h!(out_degree_1 => (1, true), out_degree_2 => (2, true), in_degree_3 => (3, false));
}

pub mod t {
    use super::*;
    adj_h!(out_degree_4 => (4, true), in_degree_4 => (4, false), out_degree_0 => (0, true), out_degree_5 => (5, true), in_degree_6 => (6, false));
}
