#![allow(dead_code, unused_imports, unused_macros, static_mut_refs, clippy::all)]
#[cfg(kani)]
mod util;
#[cfg(kani)]
mod fixtures;
#[cfg(kani)]
mod c09;
#[cfg(kani)]
mod c01;
#[cfg(kani)]
mod c03;
#[cfg(kani)]
mod c04core;
#[cfg(kani)]
mod c07;
#[cfg(kani)]
mod c10;
#[cfg(kani)]
mod c11;
#[cfg(kani)]
mod c13;
#[cfg(kani)]
mod c15;
#[cfg(kani)]
mod c17;
#[cfg(kani)]
mod lp;
