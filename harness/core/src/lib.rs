#![allow(dead_code, unused_imports, unused_macros, clippy::all)]
#[cfg(kani)]
mod util;
#[cfg(kani)]
mod c09;
