//! C04 (core crate part) - an edge cut by an alternative-route search is never usable, whatever
//! the wrapped model says; every other edge is decided by the wrapped model alone.
//! `EdgeCutFrontierModel` (the cut-edge set is the H1 table model).

use crate::util::*;
use routee_compass_core::algorithm::search::util::edge_cut_frontier_model::EdgeCutFrontierModel;
use routee_compass_core::model::frontier::frontier_model::FrontierModel;
use routee_compass_core::model::frontier::frontier_model_error::FrontierModelError;
use routee_compass_core::model::network::{Edge, EdgeId};
use routee_compass_core::model::state::state_model::StateModel;
use routee_compass_core::model::traversal::state::state_variable::StateVar;
use routee_compass_core::util::verif_collections::HashSet as TableSet;
use std::sync::Arc;

/// 0 = Ok(true), 1 = Ok(false), 2 = Err
struct Scripted {
    answer: u8,
}
impl FrontierModel for Scripted {
    fn valid_frontier(&self, _e: &Edge, _s: &[StateVar], _p: Option<&Edge>, _sm: &StateModel) -> Result<bool, FrontierModelError> {
        match self.answer {
            0 => Ok(true),
            1 => Ok(false),
            _ => Err(FrontierModelError::FrontierModelError(String::new())),
        }
    }
}

fn edge_cut(n_cut: usize) {
    let cuts: [usize; 3] = kani::any();
    let mut set: TableSet<EdgeId> = TableSet::new();
    let mut i = 0;
    while i < n_cut {
        set.insert(EdgeId(cuts[i]));
        i += 1;
    }
    let answer: u8 = kani::any();
    kani::assume(answer <= 2);
    let m = EdgeCutFrontierModel::new(Arc::new(Scripted { answer }), set);
    let sm = StateModel::new(vec![]);
    let e = Edge::new(kani::any(), kani::any(), kani::any(), 1.0);
    let p = Edge::new(kani::any(), kani::any(), kani::any(), 1.0);
    let has_prev: bool = kani::any();
    let r = m.valid_frontier(&e, &[], if has_prev { Some(&p) } else { None }, &sm);
    let mut is_cut = false;
    let mut i = 0;
    while i < n_cut {
        if cuts[i] == e.edge_id.0 {
            is_cut = true;
        }
        i += 1;
    }
    kani::cover!(n_cut == 0 || is_cut, "a cut edge is offered");
    kani::cover!(!is_cut && answer == 0, "an uncut, permitted edge is offered");
    if is_cut {
        assert!(matches!(r, Ok(false)), "a cut edge is never usable, whatever the wrapped model says");
    } else {
        match answer {
            0 => assert!(matches!(r, Ok(true)), "an uncut edge is decided by the wrapped model"),
            1 => assert!(matches!(r, Ok(false))),
            _ => assert!(r.is_err(), "errors of the wrapped model are propagated"),
        }
    }
    // the previous edge being cut does not matter: only the edge about to be used is tested
    std::mem::forget(r);
    std::mem::forget(m);
    std::mem::forget(sm);
}

pub mod q {
    use super::*;
    #[kani::proof]
    #[kani::unwind(5)]
    pub fn edge_cut_0() { edge_cut(0) }
    #[kani::proof]
    #[kani::unwind(5)]
    pub fn edge_cut_1() { edge_cut(1) }
    #[kani::proof]
    #[kani::unwind(5)]
    pub fn edge_cut_3() { edge_cut(3) }
}
