//! C17 / C12 - the product iterator behind grid-search expansion (`util::multiset::MultiSet`).
//!
//! For this kernel the SHAPE (number of axes, options per axis) is the input. Symbolic lengths of
//! heap vectors are out of reach for CBMC, so the shape space is enumerated exhaustively up to
//! 3 axes x 3 options (one harness per shape) and the solver decides each shape for all element
//! values, together with every index / overflow / bounds check on the way.
//!
//! c17::q / c17::t   regular shapes (all lengths >= 1): exactly prod(n_i) items, item j is the
//!                   mixed-radix decoding of j (first axis fastest) - hence every combination
//!                   exactly once - then `None` forever.
//! c17::dq / c17::dt degenerate shapes (no axes, or an empty axis; property C12): the iterator
//!                   must not panic and must end: no axes -> exactly one (empty) combination,
//!                   an empty axis -> no combination.

use routee_compass_core::util::multiset::MultiSet;

const MAX_AXES: usize = 3;
const MAX_LEN: usize = 3;

include!("c17_gen.rs");
