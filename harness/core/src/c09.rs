//! C09 - unit conversions are linear, invertible and physically correct.
//!
//! One harness per *ordered unit pair* (the pair is the concrete shape, so every multiplication
//! inside `convert` is by a constant); the converted value, its sign and a second addend are
//! symbolic and decided by the solver over all finite f64 in the stated magnitude range.
//!
//! Oracle constants are an independent physical table written here (SI definitions), not read
//! from the repository.

use crate::util::*;
use routee_compass_core::model::unit::as_f64::AsF64;
use routee_compass_core::model::unit::*;

/// tolerance stated by the property: 0.1 percent
const TOL: f64 = 1e-3;

// value -> base-unit factors (physical definitions)
pub const D_M: f64 = 1.0;
pub const D_KM: f64 = 1000.0;
pub const D_MI: f64 = 1609.344;
pub const D_IN: f64 = 0.0254;
pub const D_FT: f64 = 0.3048;
pub const T_H: f64 = 3600.0;
pub const T_MIN: f64 = 60.0;
pub const T_S: f64 = 1.0;
pub const T_MS: f64 = 0.001;
pub const S_KPH: f64 = 1.0 / 3.6;
pub const S_MPH: f64 = 0.44704;
pub const S_MPS: f64 = 1.0;
pub const G_PCT: f64 = 0.01;
pub const G_DEC: f64 = 1.0;
pub const G_MIL: f64 = 0.001;
pub const W_LB: f64 = 0.45359237;
pub const W_TON: f64 = 907.18474;
pub const W_KG: f64 = 1.0;

/// x*c within relative tolerance `tol`, written with constant-folded interval ends so that the
/// only symbolic products are `x * const` (bit-blasting cost: seconds; an exact `==` between two
/// symbolic products is a multiplier-equivalence problem and timed out at 150 s in the probes)
pub fn within(x: f64, y: f64, c: f64, tol: f64) -> bool {
    let a = x * (c * (1.0 - tol));
    let b = x * (c * (1.0 + tol));
    // the sign of x*c decides which end is the lower one
    if a <= b {
        a <= y && y <= b
    } else {
        b <= y && y <= a
    }
}

/// body of a pair harness. `$phys` = Some(k) when the family has a physical factor.
macro_rules! pair_body {
    ($Q:ident, $from:expr, $to:expr, $same:expr, $phys:expr) => {{
        let x: f64 = any_mag(1e-6, 1e12);
        let from = $from;
        let to = $to;
        let y = from.convert(&$Q::new(x), &to).as_f64();
        kani::cover!(x > 0.0, "positive value reaches the assertions");
        kani::cover!(x < 0.0, "negative value reaches the assertions");
        assert!(y.is_finite(), "conversion of a finite in-range value is finite");
        assert!((y > 0.0) == (x > 0.0), "sign preserved");
        if $same {
            assert!(y.to_bits() == x.to_bits(), "identity for equal units (bit exact)");
        }
        let phys: Option<f64> = $phys;
        // reference factor: the physical one where the property names one, otherwise the
        // implementation's own image of 1.0 (homogeneity: convert(x) ~ x * convert(1))
        let k = match phys {
            Some(k) => k,
            None => from.convert(&$Q::new(1.0), &to).as_f64(),
        };
        assert!(within(x, y, k, TOL), "convert(x) within 0.1 percent of x * factor");
    }};
}

macro_rules! round_body {
    ($Q:ident, $from:expr, $to:expr) => {{
        let x: f64 = any_mag(1e-6, 1e12);
        let from = $from;
        let to = $to;
        let y = from.convert(&$Q::new(x), &to);
        let back = to.convert(&y, &from).as_f64();
        kani::cover!(x > 0.0, "positive value reaches the assertions");
        kani::cover!(x < 0.0, "negative value reaches the assertions");
        assert!(within(x, back, 1.0, TOL), "there-and-back within 0.1 percent");
    }};
}

/// family!(module, UnitEnum, Quantity, has_physical_factor, [(modname, Variant, base_factor), ...])
/// expands to <family>::pair::<from>::<to>::check (family_round!: <family>::round::...) for every ordered pair.
macro_rules! family {
    ($fam:ident, $U:ident, $Q:ident, $phys:expr, $all:tt) => {
        pub mod $fam {
            #[allow(unused_imports)]
            use super::*;
            pub mod pair { #[allow(unused_imports)] use super::*; family!(@outer pair_h, $U, $Q, $phys, $all, $all); }
        }
    };
    (@outer $h:ident, $U:ident, $Q:ident, $phys:expr, [$(($n1:ident, $v1:ident, $k1:expr)),*], $all:tt) => {
        $( pub mod $n1 { #[allow(unused_imports)] use super::*; family!(@inner $h, $U, $Q, $phys, $n1, $v1, $k1, $all); } )*
    };
    (@inner $h:ident, $U:ident, $Q:ident, $phys:expr, $n1:ident, $v1:ident, $k1:expr, [$(($n2:ident, $v2:ident, $k2:expr)),*]) => {
        $( pub mod $n2 {
            #[allow(unused_imports)] use super::*;
            #[kani::proof]
            pub fn check() {
                #[allow(unused_variables)]
                let same = stringify!($v1) == stringify!($v2);
                family!(@body $h, $U, $Q, $phys, $v1, $k1, $v2, $k2, same);
            }
        } )*
    };
    (@body pair_h, $U:ident, $Q:ident, $phys:expr, $v1:ident, $k1:expr, $v2:ident, $k2:expr, $same:expr) => {
        pair_body!($Q, $U::$v1, $U::$v2, $same, if $phys { Some($k1 / $k2) } else { None })
    };
    (@body round_h, $U:ident, $Q:ident, $phys:expr, $v1:ident, $k1:expr, $v2:ident, $k2:expr, $same:expr) => {
        round_body!($Q, $U::$v1, $U::$v2)
    };
}

macro_rules! family_round {
    ($fam:ident, $U:ident, $Q:ident, $all:tt) => {
        pub mod $fam {
            #[allow(unused_imports)]
            use super::*;
            pub mod round { #[allow(unused_imports)] use super::*; family!(@outer round_h, $U, $Q, false, $all, $all); }
        }
    };
}

/// quick tier: every ordered pair of every family (77 harnesses)
pub mod q {
    use super::*;
    family!(distance, DistanceUnit, Distance, true,
        [(meters, Meters, D_M), (kilometers, Kilometers, D_KM), (miles, Miles, D_MI), (inches, Inches, D_IN), (feet, Feet, D_FT)]);
    family!(time, TimeUnit, Time, true,
        [(hours, Hours, T_H), (minutes, Minutes, T_MIN), (seconds, Seconds, T_S), (milliseconds, Milliseconds, T_MS)]);
    family!(speed, SpeedUnit, Speed, true,
        [(kph, KilometersPerHour, S_KPH), (mph, MilesPerHour, S_MPH), (mps, MetersPerSecond, S_MPS)]);
    family!(grade, GradeUnit, Grade, true,
        [(percent, Percent, G_PCT), (decimal, Decimal, G_DEC), (millis, Millis, G_MIL)]);
    family!(weight, WeightUnit, Weight, true,
        [(pounds, Pounds, W_LB), (tons, Tons, W_TON), (kg, Kg, W_KG)]);
    // energy: no physical factor is claimed by the property (fuel equivalences are conventions)
    family!(energy, EnergyUnit, Energy, false,
        [(gallons_gasoline, GallonsGasoline, 1.0), (gallons_diesel, GallonsDiesel, 1.0), (kilowatt_hours, KilowattHours, 1.0)]);
}

/// round trips for every ordered pair
pub mod r {
    use super::*;
    family_round!(distance, DistanceUnit, Distance,
        [(meters, Meters, D_M), (kilometers, Kilometers, D_KM), (miles, Miles, D_MI), (inches, Inches, D_IN), (feet, Feet, D_FT)]);
    family_round!(time, TimeUnit, Time,
        [(hours, Hours, T_H), (minutes, Minutes, T_MIN), (seconds, Seconds, T_S), (milliseconds, Milliseconds, T_MS)]);
    family_round!(speed, SpeedUnit, Speed,
        [(kph, KilometersPerHour, S_KPH), (mph, MilesPerHour, S_MPH), (mps, MetersPerSecond, S_MPS)]);
    family_round!(grade, GradeUnit, Grade,
        [(percent, Percent, G_PCT), (decimal, Decimal, G_DEC), (millis, Millis, G_MIL)]);
    family_round!(weight, WeightUnit, Weight,
        [(pounds, Pounds, W_LB), (tons, Tons, W_TON), (kg, Kg, W_KG)]);
    family_round!(energy, EnergyUnit, Energy,
        [(gallons_gasoline, GallonsGasoline, 1.0), (gallons_diesel, GallonsDiesel, 1.0), (kilowatt_hours, KilowattHours, 1.0)]);
}

// ---------------------------------------------------------------------------------------------
// derived quantities: time = distance / speed, speed = distance / time, energy = rate * distance
//
// A symbolic / symbolic f64 division (or product) compared against an oracle did not return in
// 300 s in the probes, so the *value* of each constructor is decided on two 1-D slices per unit
// triple (one operand symbolic over its whole range, the other pinned to a per-instance
// constant), while the accept/reject rule and the sign are decided over the full 2-D input space.

/// three table tolerances (two input conversions, one output conversion)
const TOL3: f64 = 3e-3;

macro_rules! time_triple {
    ($name:ident, $su:ident, $ks:expr, $du:ident, $kd:expr, $tu:ident, $kt:expr, $s0:expr, $d0:expr) => {
        pub mod $name {
            use super::*;
            /// accept / reject over the whole input plane
            #[kani::proof]
            pub fn reject() {
                let s: f64 = kani::any();
                let d: f64 = kani::any();
                kani::assume(s.is_finite() && d.is_finite());
                kani::assume(s == 0.0 || (s.abs() >= 1e-6 && s.abs() <= 1e6));
                kani::assume(d == 0.0 || (d.abs() >= 1e-6 && d.abs() <= 1e9));
                let r = Time::create(&Speed::new(s), &SpeedUnit::$su, &Distance::new(d), &DistanceUnit::$du, &TimeUnit::$tu);
                kani::cover!(r.is_ok(), "accepted input reaches the assertions");
                kani::cover!(r.is_err(), "rejected input reaches the assertions");
                if s <= 0.0 || d <= 0.0 {
                    assert!(r.is_err(), "non-positive speed or distance is rejected");
                } else {
                    assert!(r.is_ok(), "positive speed and distance are accepted");
                }
                if let Ok(t) = r {
                    assert!(t.as_f64() > 0.0 && t.as_f64().is_finite(), "a returned time is positive and finite");
                }
            }
            /// value, distance symbolic, speed pinned
            #[kani::proof]
            pub fn value_d() {
                let s: f64 = $s0;
                let d = any_in(1e-3, 1e7);
                let t = Time::create(&Speed::new(s), &SpeedUnit::$su, &Distance::new(d), &DistanceUnit::$du, &TimeUnit::$tu);
                kani::cover!(t.is_ok(), "value reaches the assertion");
                let t = t.unwrap().as_f64();
                let k = $kd / ($ks * $kt) / s;
                assert!(within(d, t, k, TOL3), "time == distance / speed in the requested unit");
            }
            /// value, speed symbolic, distance pinned: t * s == d * K
            #[kani::proof]
            pub fn value_s() {
                let s = any_in(1e-2, 1e3);
                let d: f64 = $d0;
                let t = Time::create(&Speed::new(s), &SpeedUnit::$su, &Distance::new(d), &DistanceUnit::$du, &TimeUnit::$tu);
                kani::cover!(t.is_ok(), "value reaches the assertion");
                let t = t.unwrap().as_f64();
                let k = $kd / ($ks * $kt) * d;
                let p = t * s;
                assert!(p >= k * (1.0 - TOL3) && p <= k * (1.0 + TOL3), "time * speed == distance in the requested unit");
            }
        }
    };
}

macro_rules! speed_triple {
    ($name:ident, $tu:ident, $kt:expr, $du:ident, $kd:expr, $su:ident, $ks:expr, $t0:expr, $d0:expr) => {
        pub mod $name {
            use super::*;
            #[kani::proof]
            pub fn reject() {
                let t: f64 = kani::any();
                let d: f64 = kani::any();
                kani::assume(t.is_finite() && d.is_finite());
                kani::assume(t == 0.0 || (t.abs() >= 1e-6 && t.abs() <= 1e9));
                kani::assume(d == 0.0 || (d.abs() >= 1e-6 && d.abs() <= 1e9));
                let r = Speed::create(&Time::new(t), &TimeUnit::$tu, &Distance::new(d), &DistanceUnit::$du, &SpeedUnit::$su);
                kani::cover!(r.is_ok(), "accepted input reaches the assertions");
                kani::cover!(r.is_err(), "rejected input reaches the assertions");
                if t <= 0.0 {
                    assert!(r.is_err(), "non-positive time is rejected");
                } else {
                    assert!(r.is_ok(), "positive time is accepted");
                }
                if let Ok(v) = r {
                    assert!(v.as_f64().is_finite(), "a returned speed is finite");
                    assert!((v.as_f64() > 0.0) == (d > 0.0), "speed has the sign of the distance");
                }
            }
            #[kani::proof]
            pub fn value_d() {
                let t: f64 = $t0;
                let d = any_in(1e-3, 1e7);
                let v = Speed::create(&Time::new(t), &TimeUnit::$tu, &Distance::new(d), &DistanceUnit::$du, &SpeedUnit::$su);
                kani::cover!(v.is_ok(), "value reaches the assertion");
                let v = v.unwrap().as_f64();
                let k = $kd / ($kt * $ks) / t;
                assert!(within(d, v, k, TOL3), "speed == distance / time in the requested unit");
            }
            #[kani::proof]
            pub fn value_t() {
                let t = any_in(1e-3, 1e6);
                let d: f64 = $d0;
                let v = Speed::create(&Time::new(t), &TimeUnit::$tu, &Distance::new(d), &DistanceUnit::$du, &SpeedUnit::$su);
                kani::cover!(v.is_ok(), "value reaches the assertion");
                let v = v.unwrap().as_f64();
                let k = $kd / ($kt * $ks) * d;
                let p = v * t;
                assert!(p >= k * (1.0 - TOL3) && p <= k * (1.0 + TOL3), "speed * time == distance in the requested unit");
            }
        }
    };
}

macro_rules! energy_pair {
    ($name:ident, $ru:ident, $eu:ident, $krd:expr, $du:ident, $kd:expr, $r0:expr, $d0:expr) => {
        pub mod $name {
            use super::*;
            #[kani::proof]
            pub fn unit_and_sign() {
                let r = any_mag(1e-6, 1e3);
                let d = any_in(1e-3, 1e7);
                let res = Energy::create(&EnergyRate::new(r), &EnergyRateUnit::$ru, &Distance::new(d), &DistanceUnit::$du);
                kani::cover!(res.is_ok(), "value reaches the assertions");
                let (e, eu) = res.unwrap();
                assert!(eu == EnergyUnit::$eu, "energy is reported in the rate's own energy unit");
                assert!(e.as_f64().is_finite(), "finite");
                assert!((e.as_f64() > 0.0) == (r > 0.0), "energy has the sign of the rate (regeneration stays negative)");
            }
            #[kani::proof]
            pub fn value_d() {
                let r: f64 = $r0;
                let d = any_in(1e-3, 1e7);
                let (e, _) = Energy::create(&EnergyRate::new(r), &EnergyRateUnit::$ru, &Distance::new(d), &DistanceUnit::$du).unwrap();
                kani::cover!(true, "value reaches the assertion");
                let k = ($kd / $krd) * r;
                assert!(within(d, e.as_f64(), k, TOL), "energy == rate * distance (distance in the rate's unit)");
            }
            #[kani::proof]
            pub fn value_r() {
                let r = any_mag(1e-6, 1e3);
                let d: f64 = $d0;
                let (e, _) = Energy::create(&EnergyRate::new(r), &EnergyRateUnit::$ru, &Distance::new(d), &DistanceUnit::$du).unwrap();
                kani::cover!(r < 0.0, "negative rate reaches the assertion");
                let k = ($kd / $krd) * d;
                assert!(within(r, e.as_f64(), k, TOL), "energy == rate * distance (distance in the rate's unit)");
            }
        }
    };
}

include!("c09_triples.rs");
