//! C10 - search limits: the limit predicate and its error mapping, for every limit kind.
//!
//! The search loop calls `TerminationModel::test(start, tree_len, iterations)` before every pop;
//! what is decided here is that call, for every value of the limit and the counters, with the
//! clock replaced by a stub returning arbitrary non-decreasing instants. That the loop makes the
//! call on every turn with those counters is read from `run_a_star`, not decided.

use crate::util::*;
use routee_compass_core::model::termination::termination_model::TerminationModel as T;
use routee_compass_core::model::termination::termination_model_error::TerminationModelError as E;
use std::time::{Duration, Instant};

#[repr(C)]
struct RawInstant {
    tv_sec: i64,
    tv_nsec: u32,
}

/// an Instant value without calling the clock (Linux layout: Timespec { i64 secs, u32 nanos })
fn instant_at(secs: u32, nanos: u32) -> Instant {
    assert!(std::mem::size_of::<Instant>() == std::mem::size_of::<RawInstant>());
    unsafe {
        std::mem::transmute::<RawInstant, Instant>(RawInstant {
            tv_sec: secs as i64,
            tv_nsec: nanos % 1_000_000_000,
        })
    }
}

fn any_duration(max_secs: u64) -> Duration {
    let s: u64 = kani::any();
    let n: u32 = kani::any();
    kani::assume(s <= max_secs);
    kani::assume(n < 1_000_000_000);
    Duration::new(s, n)
}

static mut CLOCK: Option<Instant> = None;
static mut CLOCK_READS: u32 = 0;

/// stub for `Instant::now`: every read advances the clock by an arbitrary non-negative amount
fn stub_now() -> Instant {
    unsafe {
        let cur = CLOCK.unwrap();
        let step = any_duration(1 << 20);
        let next = cur + step;
        CLOCK = Some(next);
        CLOCK_READS += 1;
        next
    }
}

fn classify(r: &Result<(), E>) -> u8 {
    match r {
        Ok(()) => 0,
        Err(E::QueryTerminated(_)) => 1,
        Err(E::RuntimeError(_)) => 2,
    }
}

macro_rules! runtime {
    ($name:ident, $freq:expr) => {
        /// runtime limit with check frequency $freq: on a check turn it fires iff the clock read
        /// exceeds start + limit; off a check turn it never fires and the clock is not read
        #[kani::proof]
        #[kani::stub(std::fmt::format, stub_format)]
        #[kani::stub(std::time::Instant::now, stub_now)]
        #[kani::unwind(4)]
        pub fn $name() {
            let start = instant_at(kani::any(), kani::any());
            let elapsed_before = any_duration(1 << 20);
            unsafe {
                CLOCK = Some(start + elapsed_before);
                CLOCK_READS = 0;
            }
            let limit = any_duration(1 << 21);
            let it: u64 = kani::any();
            let size: usize = kani::any();
            let m = T::QueryRuntimeLimit { limit, frequency: $freq };
            let r = m.test(&start, size, it);
            let c = classify(&r);
            let reads = unsafe { CLOCK_READS };
            let now_after = unsafe { CLOCK.unwrap() };
            let check_turn = it % $freq == 0;
            kani::cover!(c == 0 && check_turn, "check turn, within budget");
            kani::cover!(c == 1, "terminated");
            kani::cover!(!check_turn || $freq == 1, "off turn (frequency 1 has none)");
            assert!(c != 2, "never 'unable to explain' under a monotone clock");
            if !check_turn {
                assert!(c == 0, "no termination between scheduled checks");
                assert!(reads == 0, "clock not consulted between scheduled checks");
            } else {
                assert!(reads >= 1);
                // budget exhausted before the call => this scheduled check stops the search
                if elapsed_before > limit {
                    assert!(c == 1, "exhausted budget stops at the scheduled check");
                }
                // the call never terminates a search whose clock is still within the budget afterwards
                if now_after.duration_since(start) <= limit {
                    assert!(c == 0, "never terminates within the budget");
                }
            }
            std::mem::forget(r);
        }
    };
}

pub mod q {
    use super::*;

    /// iteration limit: fires iff iterations + 1 > limit, i.e. the (limit+1)-th expansion never starts
    #[kani::proof]
    #[kani::stub(std::fmt::format, stub_format)]
    #[kani::unwind(4)]
    pub fn iterations() {
        let limit: u64 = kani::any();
        let it: u64 = kani::any();
        let size: usize = kani::any();
        kani::assume(it < u64::MAX);
        let start = instant_at(kani::any(), kani::any());
        let m = T::IterationsLimit { limit };
        let r = m.test(&start, size, it);
        let c = classify(&r);
        kani::cover!(c == 0, "not terminated reaches the assertions");
        kani::cover!(c == 1, "terminated reaches the assertions");
        assert!(c != 2, "never 'unable to explain'");
        assert!((c == 1) == (it + 1 > limit), "terminates iff iterations + 1 > limit");
        // consequence for the loop: an expansion with index `it` (0-based) is only started when
        // it < limit, so at most `limit` expansions are performed
        if c == 0 {
            assert!(it < limit);
        }
        std::mem::forget(r);
    }

    #[kani::proof]
    #[kani::stub(std::fmt::format, stub_format)]
    #[kani::unwind(4)]
    pub fn solution_size() {
        let limit: usize = kani::any();
        let it: u64 = kani::any();
        let size: usize = kani::any();
        let start = instant_at(kani::any(), kani::any());
        let m = T::SolutionSizeLimit { limit };
        let r = m.test(&start, size, it);
        let c = classify(&r);
        kani::cover!(c == 0, "not terminated reaches the assertions");
        kani::cover!(c == 1, "terminated reaches the assertions");
        assert!(c != 2, "never 'unable to explain'");
        assert!((c == 1) == (size > limit), "terminates iff tree size > limit");
        std::mem::forget(r);
    }

    /// monotone in the limit: whatever fires at limit L fires at every smaller limit
    #[kani::proof]
    #[kani::stub(std::fmt::format, stub_format)]
    #[kani::unwind(4)]
    pub fn monotone() {
        let l1: u64 = kani::any();
        let l2: u64 = kani::any();
        kani::assume(l2 <= l1);
        let it: u64 = kani::any();
        kani::assume(it < u64::MAX);
        let size: usize = kani::any();
        let s1: usize = kani::any();
        let s2: usize = kani::any();
        kani::assume(s2 <= s1);
        let start = instant_at(0, 0);
        let a = T::IterationsLimit { limit: l1 }.terminate_search(&start, size, it).unwrap();
        let b = T::IterationsLimit { limit: l2 }.terminate_search(&start, size, it).unwrap();
        let c = T::SolutionSizeLimit { limit: s1 }.terminate_search(&start, size, it).unwrap();
        let d = T::SolutionSizeLimit { limit: s2 }.terminate_search(&start, size, it).unwrap();
        kani::cover!(a && b, "both fire");
        kani::cover!(!a && b, "only the smaller limit fires");
        assert!(!a || b, "iteration limit is monotone");
        assert!(!c || d, "size limit is monotone");
    }

    runtime!(runtime_f1, 1u64);
    runtime!(runtime_f3, 3u64);

    /// combined limits = disjunction (the predicate the loop's `test` call is built on)
    #[kani::proof]
    #[kani::unwind(5)]
    pub fn combined2_predicate() {
        let li: u64 = kani::any();
        let ls: usize = kani::any();
        let it: u64 = kani::any();
        kani::assume(it < u64::MAX);
        let size: usize = kani::any();
        let start = instant_at(0, 0);
        let m = T::Combined { models: vec![T::IterationsLimit { limit: li }, T::SolutionSizeLimit { limit: ls }] };
        let r = m.terminate_search(&start, size, it);
        kani::cover!(matches!(r, Ok(true)) && it + 1 > li && size <= ls, "only the first fires");
        kani::cover!(matches!(r, Ok(true)) && it + 1 <= li && size > ls, "only the second fires");
        kani::cover!(matches!(r, Ok(false)), "none fires");
        assert!(r.is_ok());
        assert!(r.unwrap() == (it + 1 > li || size > ls), "combined = any of the limits");
        std::mem::forget(m);
    }

    // The error mapping of a *combined* model (`test` -> `explain_termination`, which collects and
    // joins the sub-explanations) is outside the claim: even with concrete counters the
    // `Vec<String>::join` path did not return in 1500 s / 6 GB. The predicate above is what decides
    // whether the loop stops; the leaf kinds' error mapping is decided in full.
}

pub mod t {
    use super::*;
    runtime!(runtime_f2, 2u64);
    runtime!(runtime_f7, 7u64);
    runtime!(runtime_f10, 10u64);

    /// nested combination incl. a runtime limit: the predicate
    #[kani::proof]
    #[kani::stub(std::time::Instant::now, stub_now)]
    #[kani::unwind(5)]
    pub fn combined3_nested_predicate() {
        let start = instant_at(kani::any(), kani::any());
        let elapsed_before = any_duration(1 << 20);
        unsafe {
            CLOCK = Some(start + elapsed_before);
            CLOCK_READS = 0;
        }
        let li: u64 = kani::any();
        let ls: usize = kani::any();
        let limit = any_duration(1 << 21);
        let it: u64 = kani::any();
        kani::assume(it < u64::MAX);
        let size: usize = kani::any();
        let m = T::Combined {
            models: vec![
                T::IterationsLimit { limit: li },
                T::Combined { models: vec![T::SolutionSizeLimit { limit: ls }, T::QueryRuntimeLimit { limit, frequency: 1 }] },
            ],
        };
        let r = m.terminate_search(&start, size, it);
        let now_after = unsafe { CLOCK.unwrap() };
        kani::cover!(matches!(r, Ok(true)), "terminated");
        kani::cover!(matches!(r, Ok(false)), "none fires");
        assert!(r.is_ok());
        let fired = r.unwrap();
        if it + 1 > li || size > ls || elapsed_before > limit {
            assert!(fired, "any exhausted limit stops the search");
        }
        if it + 1 <= li && size <= ls && now_after.duration_since(start) <= limit {
            assert!(!fired, "no limit exhausted: continue");
        }
        std::mem::forget(m);
    }
}
