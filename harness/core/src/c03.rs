//! C03 - reported state and costs are the true sums over the route's edges: kernels.
//!
//! L1 (pure): turn angle from two edge headings (wrap into -180..180, congruent to the raw
//!     difference), turn classification (total on wrapped angles, documented sectors), the turn
//!     delay looked up for the classified turn - "the configured delay of each turn actually
//!     taken (classified from the headings of the two edges)".
//! L1b: unit-aware accumulation in the state model: see c03::s (state model kernels).

use crate::util::*;
use routee_compass_core::model::access::default::turn_delays::edge_heading::EdgeHeading;
use routee_compass_core::model::access::default::turn_delays::turn::Turn;
use routee_compass_core::model::access::default::turn_delays::turn_delay_access_model_engine::TurnDelayAccessModelEngine;
use routee_compass_core::model::access::default::turn_delays::turn_delay_model::TurnDelayModel;
use routee_compass_core::model::network::{Edge, Vertex};
use routee_compass_core::model::unit::as_f64::AsF64;
use routee_compass_core::model::unit::{Time, TimeUnit};
use routee_compass_core::util::verif_collections::HashMap as TableMap;

fn any_heading() -> i16 {
    let h: i16 = kani::any();
    kani::assume(h >= 0 && h <= 360);
    h
}

/// documented sectors, written from the turn-delay documentation: 0 none, 1 slight right,
/// 2 slight left, 3 right, 4 left, 5 sharp right, 6 sharp left, 7 u-turn
fn sector(angle: i16) -> u8 {
    let a = if angle < 0 { -angle } else { angle };
    let right = angle > 0;
    if a < 20 {
        0
    } else if a < 45 {
        if right { 1 } else { 2 }
    } else if a < 135 {
        if right { 3 } else { 4 }
    } else if a < 160 {
        if right { 5 } else { 6 }
    } else {
        7
    }
}

fn turn_code(t: &Turn) -> u8 {
    match t {
        Turn::NoTurn => 0,
        Turn::SlightRight => 1,
        Turn::SlightLeft => 2,
        Turn::Right => 3,
        Turn::Left => 4,
        Turn::SharpRight => 5,
        Turn::SharpLeft => 6,
        Turn::UTurn => 7,
    }
}

fn turn_of(code: u8) -> Turn {
    match code {
        0 => Turn::NoTurn,
        1 => Turn::SlightRight,
        2 => Turn::SlightLeft,
        3 => Turn::Right,
        4 => Turn::Left,
        5 => Turn::SharpRight,
        6 => Turn::SharpLeft,
        _ => Turn::UTurn,
    }
}

pub mod q {
    use super::*;

    /// the angle between two edges is the heading difference wrapped into -180..180
    #[kani::proof]
    pub fn heading_wrap() {
        let (a0, a1, b0, b1) = (any_heading(), any_heading(), any_heading(), any_heading());
        let from = EdgeHeading::new(a0, a1);
        let to = EdgeHeading::new(b0, b1);
        let angle = from.bearing_to_destination(&to);
        let raw = b0 as i32 - a1 as i32;
        kani::cover!(raw > 180, "wraps down");
        kani::cover!(raw < -180, "wraps up");
        kani::cover!(raw == 180 || raw == -180, "exactly opposite");
        assert!(angle >= -180 && angle <= 180, "the turn angle lies in -180..180");
        assert!((angle as i32 - raw) % 360 == 0, "it is the heading difference modulo a full turn");
        // it uses the departure heading of the first edge and the arrival heading of the second
        assert!(from.end_heading() == a1 && to.start_heading() == b0);
    }

    /// classification is total on wrapped angles and follows the documented sectors
    #[kani::proof]
    #[kani::stub(std::fmt::format, stub_format)]
    #[kani::unwind(4)]
    pub fn turn_sectors() {
        let angle: i16 = kani::any();
        let r = Turn::from_angle(angle);
        kani::cover!(r.is_ok(), "classified");
        kani::cover!(r.is_err(), "out of range");
        if angle >= -180 && angle <= 180 {
            assert!(r.is_ok(), "every wrapped angle is classified");
            assert!(turn_code(&r.unwrap()) == sector(angle), "documented sectors");
        } else {
            assert!(r.is_err(), "angles outside -180..180 are rejected, not classified");
            std::mem::forget(r);
        }
    }

    /// the delay charged for a pair of edges is the table entry of the turn their headings make
    #[kani::proof]
    #[kani::stub(std::fmt::format, stub_format)]
    #[kani::unwind(10)]
    pub fn turn_delay_lookup() {
        let delays: [f64; 8] = kani::any();
        let mut table: TableMap<Turn, Time> = TableMap::new();
        // scrambled insertion order: the table's own order must not matter
        let order = [3u8, 0, 7, 5, 1, 6, 2, 4];
        let mut i = 0;
        while i < 8 {
            kani::assume(delays[i].is_finite() && delays[i] >= 0.0 && delays[i] <= 1e4);
            table.insert(turn_of(order[i]), Time::new(delays[order[i] as usize]));
            i += 1;
        }
        let (a0, a1, b0, b1) = (any_heading(), any_heading(), any_heading(), any_heading());
        let engine = TurnDelayAccessModelEngine {
            edge_headings: Box::new([EdgeHeading::new(a0, a1), EdgeHeading::new(b0, b1)]),
            turn_delay_model: TurnDelayModel::TabularDiscrete { table, time_unit: TimeUnit::Seconds },
            time_feature_name: String::new(),
        };
        let v = Vertex::new(0, 0.0, 0.0);
        let first: usize = kani::any();
        kani::assume(first < 2);
        let e_prev = Edge::new(first, 0, 1, 1.0);
        let e_next = Edge::new(1 - first, 1, 2, 1.0);
        let r = engine.get_delay((&v, &e_prev, &v, &e_next, &v));
        assert!(r.is_ok(), "headings in 0..360 always classify and the table covers every turn");
        let (d, u) = r.unwrap();
        // expected: angle from the departure heading of the previous edge to the arrival heading of the next
        let (dep, arr) = if first == 0 { (a1, b0) } else { (b1, a0) };
        let mut raw = arr as i32 - dep as i32;
        if raw > 180 {
            raw -= 360;
        } else if raw < -180 {
            raw += 360;
        }
        let code = sector(raw as i16);
        kani::cover!(code == 7, "u-turn");
        kani::cover!(code == 0, "no turn");
        kani::cover!(code == 4, "left");
        assert!(d.as_f64() == delays[code as usize], "the delay of the turn actually taken");
        assert!(*u == TimeUnit::Seconds, "in the table's time unit");
        // an edge id outside the heading table is an error, not a panic
        let e_bad = Edge::new(kani::any(), 0, 1, 1.0);
        kani::assume(e_bad.edge_id.0 >= 2);
        let rb = engine.get_delay((&v, &e_prev, &v, &e_bad, &v));
        assert!(rb.is_err());
        std::mem::forget(rb);
        std::mem::forget(engine);
    }
}

/// L1b - unit-aware accumulation in the state model (two-feature models; the feature names are the
/// harness's own choice: one and two bytes long, so that `String ==` is decided on the length word
/// and a one-byte compare instead of a 12-round memcmp unwinding)
pub mod s {
    use super::*;
    use routee_compass_core::model::state::state_feature::StateFeature;
    use routee_compass_core::model::state::state_model::StateModel;
    use routee_compass_core::model::traversal::state::state_variable::StateVar;
    use routee_compass_core::model::unit::{Distance, DistanceUnit};

    fn within(x: f64, y: f64, c: f64, tol: f64) -> bool {
        let a = x * (c * (1.0 - tol));
        let b = x * (c * (1.0 + tol));
        if a <= b { a <= y && y <= b } else { b <= y && y <= a }
    }

    fn model_dt(du: DistanceUnit, tu: TimeUnit) -> StateModel {
        StateModel::new(vec![
            (String::from("d"), StateFeature::Distance { distance_unit: du, initial: Distance::ZERO }),
            (String::from("tt"), StateFeature::Time { time_unit: tu, initial: Time::ZERO }),
        ])
    }

    /// adding in the feature's own unit is exact and touches only the feature's own slot
    #[kani::proof]
    #[kani::stub(std::fmt::format, stub_format)]
    #[kani::stub(routee_compass_core::model::state::state_model::StateModel::get_names, stub_names)]
    #[kani::unwind(5)]
    pub fn add_same_unit_exact() {
        let sm = model_dt(DistanceUnit::Miles, TimeUnit::Minutes);
        let d0 = any_in(0.0, 1e7);
        let t0 = any_in(0.0, 1e7);
        let v = any_in(0.0, 1e6);
        let w = any_in(0.0, 1e6);
        let mut state = vec![StateVar(d0), StateVar(t0)];
        let dn = String::from("d");
        let tn = String::from("tt");
        let r1 = sm.add_distance(&mut state, &dn, &Distance::new(v), &DistanceUnit::Miles);
        assert!(r1.is_ok());
        kani::cover!(v > 0.0, "a positive length is added");
        assert!(state[0].0 == d0 + v, "distance grows by exactly the edge length");
        assert!(state[1].0 == t0, "the time slot is untouched by a distance update");
        let r2 = sm.add_time(&mut state, &tn, &Time::new(w), &TimeUnit::Minutes);
        assert!(r2.is_ok());
        assert!(state[1].0 == t0 + w, "time grows by exactly the added time");
        assert!(state[0].0 == d0 + v, "the distance slot is untouched by a time update");
        assert!(state[0].0 >= d0 && state[1].0 >= t0, "distance and time never decrease");
        // wrong kind: an error, never a panic, and no slot changes
        let r3 = sm.add_time(&mut state, &dn, &Time::new(w), &TimeUnit::Minutes);
        assert!(r3.is_err(), "a time update on a distance feature is rejected");
        assert!(state[0].0 == d0 + v && state[1].0 == t0 + w);
        std::mem::forget((r1, r2, r3));
        std::mem::forget(sm);
        std::mem::forget(state);
    }

    /// stub for `StateModel::get_names` (only used to build "unknown feature" error messages:
    /// clone + join of every feature name)
    pub fn stub_names(_this: &StateModel) -> String {
        String::new()
    }

    /// |y - e| <= tol * e for e >= 0 (comparison only)
    fn close_to(y: f64, e: f64, tol: f64) -> bool {
        let d = if y > e { y - e } else { e - y };
        d <= tol * e
    }

    /// adding in another unit converts into the feature's unit and ACCUMULATES on what is already
    /// there (kilometres into a miles feature holding d0 miles)
    #[kani::proof]
    #[kani::stub(std::fmt::format, stub_format)]
    #[kani::stub(routee_compass_core::model::state::state_model::StateModel::get_names, stub_names)]
    #[kani::unwind(5)]
    pub fn add_distance_km_into_miles() {
        let sm = model_dt(DistanceUnit::Miles, TimeUnit::Minutes);
        let v = any_in(1e-3, 1e6);
        let d0 = any_in(0.0, 1e6);
        kani::assume(d0 == 0.0 || d0 >= 1e-3);
        let t0 = any_in(0.0, 1e7);
        let mut state = vec![StateVar(d0), StateVar(t0)];
        let dn = String::from("d");
        let r = sm.add_distance(&mut state, &dn, &Distance::new(v), &DistanceUnit::Kilometers);
        kani::cover!(r.is_ok() && d0 > 0.0, "added onto a non-empty accumulator");
        assert!(r.is_ok());
        let expect = d0 + v * (1000.0 / 1609.344);
        assert!(close_to(state[0].0, expect, 2e-3), "accumulated distance = previous + length, in the feature's unit (miles)");
        assert!(state[1].0 == t0, "the time slot is untouched");
        std::mem::forget(r);
        std::mem::forget(sm);
        std::mem::forget(state);
    }

    /// seconds into a minutes feature holding t0 minutes
    #[kani::proof]
    #[kani::stub(std::fmt::format, stub_format)]
    #[kani::stub(routee_compass_core::model::state::state_model::StateModel::get_names, stub_names)]
    #[kani::unwind(5)]
    pub fn add_time_seconds_into_minutes() {
        let sm = model_dt(DistanceUnit::Meters, TimeUnit::Minutes);
        let w = any_in(1e-3, 1e6);
        let t0 = any_in(0.0, 1e6);
        kani::assume(t0 == 0.0 || t0 >= 1e-3);
        let d0 = any_in(0.0, 1e7);
        let mut state = vec![StateVar(d0), StateVar(t0)];
        let tn = String::from("tt");
        let r = sm.add_time(&mut state, &tn, &Time::new(w), &TimeUnit::Seconds);
        kani::cover!(r.is_ok() && t0 > 0.0, "added onto a non-empty accumulator");
        assert!(r.is_ok());
        let expect = t0 + w * (1.0 / 60.0);
        assert!(close_to(state[1].0, expect, 2e-3), "accumulated time = previous + delay, in the feature's unit (minutes)");
        assert!(state[0].0 == d0, "the distance slot is untouched");
        let back = sm.get_time(&state, &tn, &TimeUnit::Seconds);
        assert!(matches!(&back, Ok(t) if close_to(t.as_f64(), t0 * 60.0 + w, 3e-3)), "and reads back in the caller's unit");
        std::mem::forget((r, back));
        std::mem::forget(sm);
        std::mem::forget(state);
    }

    /// energy: set / get / add across units (kWh into a gallons-gasoline feature)
    #[kani::proof]
    #[kani::stub(std::fmt::format, stub_format)]
    #[kani::stub(routee_compass_core::model::state::state_model::StateModel::get_names, stub_names)]
    #[kani::unwind(5)]
    pub fn add_energy_kwh_into_gallons() {
        use routee_compass_core::model::unit::{Energy, EnergyUnit};
        let sm = StateModel::new(vec![
            (String::from("e"), StateFeature::Energy { energy_unit: EnergyUnit::GallonsGasoline, initial: Energy::ZERO }),
            (String::from("tt"), StateFeature::Time { time_unit: TimeUnit::Minutes, initial: Time::ZERO }),
        ]);
        let e0 = any_in(0.0, 1e4);
        kani::assume(e0 == 0.0 || e0 >= 1e-3);
        let v = any_in(1e-3, 1e4);
        let t0 = any_in(0.0, 1e7);
        let mut state = vec![StateVar(e0), StateVar(t0)];
        let en = String::from("e");
        // the unit table's own factor for kWh -> gallons gasoline (energy equivalences are conventions, see C09)
        let k = EnergyUnit::KilowattHours.convert(&Energy::new(1.0), &EnergyUnit::GallonsGasoline).as_f64();
        let r = sm.add_energy(&mut state, &en, &Energy::new(v), &EnergyUnit::KilowattHours);
        kani::cover!(r.is_ok() && e0 > 0.0, "added onto a non-empty accumulator");
        assert!(r.is_ok());
        assert!(close_to(state[0].0, e0 + v * k, 2e-3), "accumulated energy = previous + used, in the feature's unit");
        assert!(state[1].0 == t0, "the time slot is untouched");
        let r2 = sm.set_energy(&mut state, &en, &Energy::new(v), &EnergyUnit::KilowattHours);
        assert!(r2.is_ok());
        assert!(close_to(state[0].0, v * k, 1e-3), "a value set in the caller's unit is stored in the feature's unit");
        let back = sm.get_energy(&state, &en, &EnergyUnit::KilowattHours);
        assert!(matches!(&back, Ok(e) if close_to(e.as_f64(), v, 2e-3)), "and round-trips through the unit conversion");
        std::mem::forget((r, r2, back));
        std::mem::forget(sm);
        std::mem::forget(state);
    }
}

/// L1b on ONE-feature models, with the by-name slot resolution of the ordered container replaced
/// by stubs that resolve EVERY name to the single entry (no `String` comparison). What is decided
/// is the unit plumbing of `add_* / set_* / get_*` (read in the caller's unit, add, write back in
/// the feature's unit); that a name resolves to its own slot is the container's business (C11).
/// (The un-stubbed one- and two-feature versions did not return in 900-1200 s.)
pub mod s1 {
    use super::*;
    use super::s::stub_names;
    use routee_compass_core::model::state::state_feature::StateFeature;
    use routee_compass_core::model::state::state_model::StateModel;
    use routee_compass_core::model::traversal::state::state_variable::StateVar;
    use routee_compass_core::model::unit::{Distance, DistanceUnit, Energy, EnergyUnit};
    use routee_compass_core::util::compact_ordered_hash_map::CompactOrderedHashMap as M;
    use std::hash::Hash;

    pub fn one_entry_get_index<K: Hash + Ord + PartialEq + Clone, V: Clone>(this: &M<K, V>, _k: &K) -> Option<usize> {
        match this {
            M::OneEntry { .. } => Some(0),
            _ => {
                kani::assume(false);
                None
            }
        }
    }
    pub fn one_entry_get<'a, K: Hash + Ord + PartialEq + Clone, V: Clone>(this: &'a M<K, V>, _k: &K) -> Option<&'a V> {
        match this {
            M::OneEntry { k1: _, v1 } => Some(v1),
            _ => {
                kani::assume(false);
                None
            }
        }
    }

    fn close_to(y: f64, e: f64, tol: f64) -> bool {
        let d = if y > e { y - e } else { e - y };
        d <= tol * e
    }

    /// seconds added to a minutes feature that already holds t0 minutes
    #[kani::proof]
    #[kani::stub(std::fmt::format, stub_format)]
    #[kani::stub(routee_compass_core::model::state::state_model::StateModel::get_names, stub_names)]
    #[kani::stub(routee_compass_core::util::compact_ordered_hash_map::CompactOrderedHashMap::get_index, one_entry_get_index)]
    #[kani::stub(routee_compass_core::util::compact_ordered_hash_map::CompactOrderedHashMap::get, one_entry_get)]
    #[kani::unwind(4)]
    pub fn add_time_seconds_into_minutes() {
        let sm = StateModel::new(vec![(String::new(), StateFeature::Time { time_unit: TimeUnit::Minutes, initial: Time::ZERO })]);
        let w = any_in(1e-3, 1e6);
        // the accumulator's previous content is a constant (a symbolic one makes the chain
        // convert - add - convert back, compared with an oracle, a SAT problem that did not return in 600 s)
        let t0: f64 = 7.5;
        let mut state = vec![StateVar(t0)];
        let tn = String::new();
        let r = sm.add_time(&mut state, &tn, &Time::new(w), &TimeUnit::Seconds);
        kani::cover!(r.is_ok(), "added onto a non-empty accumulator");
        assert!(r.is_ok());
        assert!(state.len() == 1);
        assert!(close_to(state[0].0, t0 + w * (1.0 / 60.0), 2e-3), "accumulated time = previous + delay, in the feature's unit (minutes)");
        std::mem::forget(r);
        std::mem::forget(sm);
        std::mem::forget(state);
    }

    /// kilometres added to a miles feature that already holds d0 miles
    #[kani::proof]
    #[kani::stub(std::fmt::format, stub_format)]
    #[kani::stub(routee_compass_core::model::state::state_model::StateModel::get_names, stub_names)]
    #[kani::stub(routee_compass_core::util::compact_ordered_hash_map::CompactOrderedHashMap::get_index, one_entry_get_index)]
    #[kani::stub(routee_compass_core::util::compact_ordered_hash_map::CompactOrderedHashMap::get, one_entry_get)]
    #[kani::unwind(4)]
    pub fn add_distance_km_into_miles() {
        let sm = StateModel::new(vec![(String::new(), StateFeature::Distance { distance_unit: DistanceUnit::Miles, initial: Distance::ZERO })]);
        let v = any_in(1e-3, 1e6);
        let d0: f64 = 12.25;
        let mut state = vec![StateVar(d0)];
        let dn = String::new();
        let r = sm.add_distance(&mut state, &dn, &Distance::new(v), &DistanceUnit::Kilometers);
        kani::cover!(r.is_ok(), "added onto a non-empty accumulator");
        assert!(r.is_ok());
        assert!(close_to(state[0].0, d0 + v * (1000.0 / 1609.344), 2e-3), "accumulated distance = previous + length, in the feature's unit (miles)");
        // a time update on a distance feature is an error, never a panic, and changes nothing
        let before = state[0].0;
        let r2 = sm.add_time(&mut state, &dn, &Time::new(v), &TimeUnit::Seconds);
        assert!(r2.is_err() && state[0].0 == before);
        std::mem::forget((r, r2));
        std::mem::forget(sm);
        std::mem::forget(state);
    }

    fn energy_model() -> StateModel {
        StateModel::new(vec![(String::new(), StateFeature::Energy { energy_unit: EnergyUnit::GallonsGasoline, initial: Energy::ZERO })])
    }

    /// energy added across units (kWh into a gallons-gasoline feature holding 3 gallons)
    #[kani::proof]
    #[kani::stub(std::fmt::format, stub_format)]
    #[kani::stub(routee_compass_core::model::state::state_model::StateModel::get_names, stub_names)]
    #[kani::stub(routee_compass_core::util::compact_ordered_hash_map::CompactOrderedHashMap::get_index, one_entry_get_index)]
    #[kani::stub(routee_compass_core::util::compact_ordered_hash_map::CompactOrderedHashMap::get, one_entry_get)]
    #[kani::unwind(4)]
    pub fn add_energy_kwh_into_gallons() {
        let sm = energy_model();
        let e0: f64 = 3.0;
        let v = any_in(1e-3, 1e4);
        let mut state = vec![StateVar(e0)];
        let en = String::new();
        // the unit table's own factor (energy equivalences are conventions, see C09)
        let k = EnergyUnit::KilowattHours.convert(&Energy::new(1.0), &EnergyUnit::GallonsGasoline).as_f64();
        let r = sm.add_energy(&mut state, &en, &Energy::new(v), &EnergyUnit::KilowattHours);
        kani::cover!(r.is_ok(), "added onto a non-empty accumulator");
        assert!(r.is_ok());
        assert!(close_to(state[0].0, e0 + v * k, 2e-3), "accumulated energy = previous + used, in the feature's unit");
        std::mem::forget(r);
        std::mem::forget(sm);
        std::mem::forget(state);
    }

    /// a value set in the caller's unit is stored in the feature's unit and reads back
    #[kani::proof]
    #[kani::stub(std::fmt::format, stub_format)]
    #[kani::stub(routee_compass_core::model::state::state_model::StateModel::get_names, stub_names)]
    #[kani::stub(routee_compass_core::util::compact_ordered_hash_map::CompactOrderedHashMap::get_index, one_entry_get_index)]
    #[kani::stub(routee_compass_core::util::compact_ordered_hash_map::CompactOrderedHashMap::get, one_entry_get)]
    #[kani::unwind(4)]
    pub fn set_get_energy_kwh_gallons() {
        let sm = energy_model();
        let v = any_in(1e-3, 1e4);
        let mut state = vec![StateVar(3.0)];
        let en = String::new();
        let k = EnergyUnit::KilowattHours.convert(&Energy::new(1.0), &EnergyUnit::GallonsGasoline).as_f64();
        let r = sm.set_energy(&mut state, &en, &Energy::new(v), &EnergyUnit::KilowattHours);
        kani::cover!(r.is_ok(), "set");
        assert!(r.is_ok());
        // interval form with constant-folded ends: `close_to(stored, v * k)` would ask the SAT solver to
        // relate two copies of the same symbolic product (no verdict in 1200 s)
        let (lo, hi) = (v * (k * (1.0 - 1e-3)), v * (k * (1.0 + 1e-3)));
        assert!(lo <= state[0].0 && state[0].0 <= hi, "stored in the feature's unit (gallons)");
        std::mem::forget(r);
        std::mem::forget(sm);
        std::mem::forget(state);
    }
}

/// L2 - one call of a REAL traversal / access model on a state vector with pinned previous content
/// (see s1 for why it is pinned): "distance is the sum of the edge lengths, time is the sum of
/// length over table speed plus the delay of each turn taken, in the configured units".
pub mod m {
    use super::*;
    use super::s::stub_names;
    use super::s1::{one_entry_get, one_entry_get_index};
    use routee_compass_core::model::access::access_model::AccessModel;
    use routee_compass_core::model::access::default::turn_delays::turn_delay_access_model::TurnDelayAccessModel;
    use routee_compass_core::model::state::state_feature::StateFeature;
    use routee_compass_core::model::state::state_model::StateModel;
    use routee_compass_core::model::traversal::default::distance_traversal_model::DistanceTraversalModel;
    use routee_compass_core::model::traversal::default::speed_traversal_engine::SpeedTraversalEngine;
    use routee_compass_core::model::traversal::default::speed_traversal_model::SpeedTraversalModel;
    use routee_compass_core::model::traversal::state::state_variable::StateVar;
    use routee_compass_core::model::traversal::traversal_model::TraversalModel;
    use routee_compass_core::model::unit::{Distance, DistanceUnit, Speed, SpeedUnit};
    use std::sync::Arc;

    fn close_to(y: f64, e: f64, tol: f64) -> bool {
        let d = if y > e { y - e } else { e - y };
        d <= tol * e
    }

    /// the distance model adds the edge's length (stored in metres) to a miles feature, model unit km
    #[kani::proof]
    #[kani::stub(std::fmt::format, stub_format)]
    #[kani::stub(routee_compass_core::model::state::state_model::StateModel::get_names, stub_names)]
    #[kani::stub(routee_compass_core::util::compact_ordered_hash_map::CompactOrderedHashMap::get_index, one_entry_get_index)]
    #[kani::stub(routee_compass_core::util::compact_ordered_hash_map::CompactOrderedHashMap::get, one_entry_get)]
    #[kani::unwind(10)]
    pub fn distance_model_edge() {
        let sm = StateModel::new(vec![(String::from("distance"), StateFeature::Distance { distance_unit: DistanceUnit::Miles, initial: Distance::ZERO })]);
        let model = DistanceTraversalModel::new(DistanceUnit::Kilometers);
        let len_m = any_in(1e-2, 1e6);
        let d0: f64 = 12.25;
        let mut state = vec![StateVar(d0)];
        let v = Vertex::new(0, 0.0, 0.0);
        let e = Edge::new(kani::any(), 0, 1, len_m);
        let r = model.traverse_edge((&v, &e, &v), &mut state, &sm);
        kani::cover!(r.is_ok(), "edge traversed");
        assert!(r.is_ok());
        assert!(state.len() == 1);
        assert!(close_to(state[0].0, d0 + len_m * (1.0 / 1609.344), 2e-3), "distance grows by the edge length, in the feature's unit (miles)");
        assert!(state[0].0 >= d0, "distance never decreases");
        std::mem::forget(r);
        std::mem::forget(sm);
        std::mem::forget(state);
    }

    /// the turn-delay access model adds the delay of the turn taken (table in seconds) to a minutes feature
    #[kani::proof]
    #[kani::stub(std::fmt::format, stub_format)]
    #[kani::stub(routee_compass_core::model::state::state_model::StateModel::get_names, stub_names)]
    #[kani::stub(routee_compass_core::util::compact_ordered_hash_map::CompactOrderedHashMap::get_index, one_entry_get_index)]
    #[kani::stub(routee_compass_core::util::compact_ordered_hash_map::CompactOrderedHashMap::get, one_entry_get)]
    #[kani::unwind(10)]
    pub fn turn_delay_access_edge() {
        let sm = StateModel::new(vec![(String::new(), StateFeature::Time { time_unit: TimeUnit::Minutes, initial: Time::ZERO })]);
        // a table that charges only left turns and u-turns
        let left = any_in(1e-2, 1e4);
        let uturn = any_in(1e-2, 1e4);
        let mut table: TableMap<Turn, Time> = TableMap::new();
        let mut c = 0u8;
        while c < 8 {
            let d = if c == 4 { left } else if c == 7 { uturn } else { 0.0 };
            table.insert(turn_of(c), Time::new(d));
            c += 1;
        }
        let (a1, b0) = (any_heading(), any_heading());
        let engine = TurnDelayAccessModelEngine {
            edge_headings: Box::new([EdgeHeading::new(0, a1), EdgeHeading::new(b0, 0)]),
            turn_delay_model: TurnDelayModel::TabularDiscrete { table, time_unit: TimeUnit::Seconds },
            time_feature_name: String::new(),
        };
        let model = TurnDelayAccessModel { engine: Arc::new(engine) };
        let t0: f64 = 7.5;
        let mut state = vec![StateVar(t0)];
        let v = Vertex::new(0, 0.0, 0.0);
        let e_prev = Edge::new(0, 0, 1, 1.0);
        let e_next = Edge::new(1, 1, 2, 1.0);
        let r = model.access_edge((&v, &e_prev, &v, &e_next, &v), &mut state, &sm);
        assert!(r.is_ok());
        let mut raw = b0 as i32 - a1 as i32;
        if raw > 180 {
            raw -= 360;
        } else if raw < -180 {
            raw += 360;
        }
        let code = sector(raw as i16);
        let w = if code == 4 { left } else if code == 7 { uturn } else { 0.0 };
        kani::cover!(code == 4, "left turn charged");
        kani::cover!(code == 0, "no turn, no delay");
        assert!(close_to(state[0].0, t0 + w * (1.0 / 60.0), 2e-3), "time grows by the delay of the turn taken, in the feature's unit (minutes)");
        assert!(state[0].0 >= t0 * (1.0 - 1e-3), "time never decreases beyond the unit table's rounding");
        std::mem::forget(r);
        std::mem::forget(model);
        std::mem::forget(sm);
        std::mem::forget(state);
    }

    /// the speed model: time grows by length / table speed, distance by the length (two features,
    /// real by-name lookups; speed pinned per instance, length symbolic)
    fn speed_model(speed_kph: f64) {
        let engine = SpeedTraversalEngine {
            speed_table: Box::new([Speed::new(speed_kph)]),
            speed_unit: SpeedUnit::KilometersPerHour,
            time_unit: TimeUnit::Minutes,
            distance_unit: DistanceUnit::Kilometers,
            max_speed: Speed::new(speed_kph),
        };
        let model = SpeedTraversalModel::new(Arc::new(engine));
        let sm = StateModel::new(model.state_features());
        assert!(sm.len() == 2);
        let len_m = any_in(1e-2, 1e6);
        // slots in the order the model declares its features: time, distance
        let (t0, d0): (f64, f64) = (7.5, 12.25);
        let mut state = vec![StateVar(t0), StateVar(d0)];
        let v = Vertex::new(0, 0.0, 0.0);
        let e = Edge::new(0, 0, 1, len_m);
        let r = model.traverse_edge((&v, &e, &v), &mut state, &sm);
        kani::cover!(r.is_ok(), "edge traversed");
        assert!(r.is_ok());
        assert!(state.len() == 2);
        // minutes = metres / 1000 / kph * 60
        assert!(close_to(state[0].0, t0 + len_m * (0.06 / speed_kph), 3e-3), "time grows by length / table speed, in the model's time unit");
        assert!(close_to(state[1].0, d0 + len_m * 0.001, 1e-3), "distance grows by the edge length, in the model's distance unit");
        assert!(state[0].0 >= t0 && state[1].0 >= d0, "distance and time never decrease");
        std::mem::forget(r);
        std::mem::forget(model);
        std::mem::forget(sm);
        std::mem::forget(state);
    }
    /// documented attempt, in no tier: no verdict in 900 s
    pub mod attempts {
        use super::*;
        #[kani::proof]
        #[kani::stub(std::fmt::format, stub_format)]
        #[kani::stub(routee_compass_core::model::state::state_model::StateModel::get_names, stub_names)]
        #[kani::unwind(10)]
        pub fn speed_model_edge_45kph() { speed_model(45.0) }
    }
}

/// L3 - one edge of a route: `EdgeTraversal::{forward_traversal, reverse_traversal}` on the
/// fixture instance (see fixtures.rs): the access update (for the RIGHT pair of edges, in network
/// order) and then the traversal update are applied to a copy of the given state, the input is
/// left alone, and the reported costs are the cost model's.
pub mod l3 {
    use super::*;
    use crate::c07::{map_value_flat, net_access_flat, net_traversal_flat};
    use crate::fixtures::*;
    use routee_compass_core::algorithm::search::edge_traversal::EdgeTraversal;
    use routee_compass_core::model::network::EdgeId;
    use routee_compass_core::model::traversal::state::state_variable::StateVar;

    const MIN_COST: f64 = 0.0000000001;

    fn one_edge(forward: bool, with_neighbour: bool) {
        let da = any_in(-1e6, 1e6);
        let dt = any_in(-1e6, 1e6);
        let x = any_in(-1e6, 1e6);
        let si = instance(da, dt);
        let prev_state = [StateVar(x)];
        // forward: traverse e1 after e0; reverse: traverse e0 "after" e1 (which lies closer to the reverse origin)
        let r = if forward {
            EdgeTraversal::forward_traversal(EdgeId(1), if with_neighbour { Some(EdgeId(0)) } else { None }, &prev_state, &si)
        } else {
            EdgeTraversal::reverse_traversal(EdgeId(0), if with_neighbour { Some(EdgeId(1)) } else { None }, &prev_state, &si)
        };
        kani::cover!(r.is_ok(), "edge traversed");
        assert!(r.is_ok());
        if let Ok(et) = &r {
            let (seen, calls) = unsafe { (ACCESS_SEEN, ACCESS_CALLS) };
            assert!(et.edge_id.0 == if forward { 1 } else { 0 }, "the traversed edge is reported");
            assert!(prev_state[0].0 == x, "the given state is not modified");
            assert!(et.result_state.len() == 1);
            if with_neighbour {
                assert!(calls == 1, "the access model is consulted exactly once");
                // (v1)-[prev]->(v2)-[next]->(v3) in NETWORK order, whatever the search direction
                assert!(seen[0] == 0 && seen[1] == 0 && seen[2] == 1 && seen[3] == 1 && seen[4] == 2,
                        "the turn is evaluated from the earlier edge to the later edge of the network");
                assert!(et.result_state[0].0 == (x + da) + dt, "access update, then traversal update");
                let after_access = (x + da) - x;
                let ac = if after_access > 0.0 { after_access } else { MIN_COST };
                assert!(et.access_cost == routee_compass_core::model::unit::Cost::new(ac) || (after_access == 0.0 && et.access_cost == routee_compass_core::model::unit::Cost::new(MIN_COST)),
                        "the access cost is the cost model's cost of the access update");
            } else {
                assert!(calls == 0, "no access without a neighbouring edge");
                assert!(et.result_state[0].0 == x + dt, "traversal update only");
                assert!(et.access_cost == routee_compass_core::model::unit::Cost::ZERO);
            }
            let total = et.result_state[0].0 - x;
            let expect_total = if total > 0.0 { total } else { MIN_COST };
            // traversal_cost is stored as total - access
            assert!(et.traversal_cost == routee_compass_core::model::unit::Cost::new(expect_total) - et.access_cost,
                    "access + traversal cost account for the cost model's cost of the whole state change");
        }
        std::mem::forget(r);
        std::mem::forget(si);
    }

    macro_rules! l3h {
        ($($name:ident => ($f:expr, $n:expr)),*) => {
            $(
                #[kani::proof]
                #[kani::unwind(4)]
                #[kani::stub(std::fmt::format, stub_format)]
                #[kani::stub(routee_compass_core::model::cost::vehicle::vehicle_cost_rate::VehicleCostRate::map_value, map_value_flat)]
                #[kani::stub(routee_compass_core::model::cost::network::network_cost_rate::NetworkCostRate::traversal_cost, net_traversal_flat)]
                #[kani::stub(routee_compass_core::model::cost::network::network_cost_rate::NetworkCostRate::access_cost, net_access_flat)]
                pub fn $name() { one_edge($f, $n) }
            )*
        };
    }
    l3h!(forward_with_previous => (true, true), forward_first_edge => (true, false),
         reverse_with_next => (false, true), reverse_first_edge => (false, false));

    /// light variant: cost model without features; decides the access trajectory (network order of
    /// the edge pair in BOTH search directions), the state update order and that the input is left alone
    fn one_edge_light(forward: bool) {
        let da = any_in(-1e6, 1e6);
        let dt = any_in(-1e6, 1e6);
        let x = any_in(-1e6, 1e6);
        let si = instance_with(da, dt, false);
        let prev_state = [StateVar(x)];
        let r = if forward {
            EdgeTraversal::forward_traversal(EdgeId(1), Some(EdgeId(0)), &prev_state, &si)
        } else {
            EdgeTraversal::reverse_traversal(EdgeId(0), Some(EdgeId(1)), &prev_state, &si)
        };
        kani::cover!(r.is_ok(), "edge traversed");
        assert!(r.is_ok());
        if let Ok(et) = &r {
            let (seen, calls) = unsafe { (ACCESS_SEEN, ACCESS_CALLS) };
            assert!(calls == 1, "the access model is consulted exactly once");
            assert!(seen[0] == 0 && seen[1] == 0 && seen[2] == 1 && seen[3] == 1 && seen[4] == 2,
                    "the turn is evaluated from the earlier edge to the later edge of the network");
            assert!(et.edge_id.0 == if forward { 1 } else { 0 });
            assert!(prev_state[0].0 == x, "the given state is not modified");
            assert!(et.result_state.len() == 1 && et.result_state[0].0 == (x + da) + dt, "access update, then traversal update");
        }
        std::mem::forget(r);
        std::mem::forget(si);
    }
    #[kani::proof]
    #[kani::unwind(3)]
    #[kani::stub(std::fmt::format, stub_format)]
    pub fn light_forward() { one_edge_light(true) }
    #[kani::proof]
    #[kani::unwind(3)]
    #[kani::stub(std::fmt::format, stub_format)]
    pub fn light_reverse() { one_edge_light(false) }
}
