//! C08 - vehicle energy and battery state follow the powertrain model: kernels.
//!
//! (a) charge arithmetic `vehicle_ops::{soc_from_battery_and_delta, as_soc_percent}`: range
//!     0..100 for every input, the unclamped formula, monotonicity in the energy used;
//! (b) `PredictionModelRecord::predict` (no cache) around a harness-defined `PredictionModel`
//!     returning an arbitrary rate: energy = rate x adjustment x distance, in the rate's own energy
//!     unit, regeneration (negative rate) stays negative;
//! (c) the vehicles (attempt, by-name state model access): BEV / ICE / PHEV `consume_energy` on the
//!     state model they declare themselves: slot discipline, charge range, PHEV fuel switching.

use crate::util::*;
use routee_compass_core::model::state::state_model::StateModel;
use routee_compass_core::model::traversal::state::state_variable::StateVar;
use routee_compass_core::model::traversal::traversal_model_error::TraversalModelError;
use routee_compass_core::model::unit::as_f64::AsF64;
use routee_compass_core::model::unit::*;
use routee_compass_powertrain::routee::prediction::model_type::ModelType;
use routee_compass_powertrain::routee::prediction::{PredictionModel, PredictionModelRecord};
use routee_compass_powertrain::routee::vehicle::default::bev::BEV;
use routee_compass_powertrain::routee::vehicle::default::ice::ICE;
use routee_compass_powertrain::routee::vehicle::default::phev::PHEV;
use routee_compass_powertrain::routee::vehicle::vehicle_ops;
use routee_compass_powertrain::routee::vehicle::vehicle_type::VehicleType;
use std::sync::Arc;

/// x*c within relative tolerance (interval ends constant-folded when c is concrete)
pub fn within(x: f64, y: f64, c: f64, tol: f64) -> bool {
    let a = x * (c * (1.0 - tol));
    let b = x * (c * (1.0 + tol));
    if a <= b {
        a <= y && y <= b
    } else {
        b <= y && y <= a
    }
}

// ---------------------------------------------------------------------------------------------
// (a) charge arithmetic

/// state of charge is within 0..100 percent for EVERY finite input and positive capacity
fn soc_range() {
    let start: f64 = kani::any();
    let used: f64 = kani::any();
    let max: f64 = kani::any();
    kani::assume(start.is_finite() && used.is_finite() && max.is_finite());
    // physical ranges: capacity 1e-3..1e4, energies within +-1e4 (any unit)
    kani::assume(max >= 1e-3 && max <= 1e4 && start >= -1e4 && start <= 1e4 && used >= -1e4 && used <= 1e4);
    let soc = vehicle_ops::soc_from_battery_and_delta(&Energy::new(start), &Energy::new(used), &Energy::new(max));
    kani::cover!(soc == 0.0, "clamped at empty");
    kani::cover!(soc == 100.0, "clamped at full");
    kani::cover!(soc > 0.0 && soc < 100.0, "not clamped");
    // (inf - inf cannot arise from finite inputs; overflow of the difference gives +-inf, which clamps)
    assert!(soc >= 0.0 && soc <= 100.0, "state of charge stays within 0..100 percent");
}

fn soc_percent_range() {
    let start = any_in(-1e4, 1e4);
    let max = any_in(1e-3, 1e4);
    let pct = vehicle_ops::as_soc_percent(&Energy::new(start), &Energy::new(max));
    kani::cover!(pct > 0.0 && pct < 100.0, "not clamped");
    assert!(pct >= 0.0 && pct <= 100.0);
    if start <= 0.0 {
        assert!(pct == 0.0, "an empty battery is 0 percent");
    }
}

/// not clamped => charge' = 100 * (start - used) / capacity; capacity is a per-instance constant
/// (a symbolic divisor makes the oracle a second symbolic division)
fn soc_unclamped(cap: f64) {
    let start = any_in(0.0, cap);
    let used = any_in(-1e3, 1e3);
    kani::assume(used == 0.0 || used.abs() >= 1e-6);
    let soc = vehicle_ops::soc_from_battery_and_delta(&Energy::new(start), &Energy::new(used), &Energy::new(cap));
    let remaining = start - used;
    kani::assume(remaining == 0.0 || remaining.abs() >= 1e-9);
    kani::cover!(soc > 0.0 && soc < 100.0 && used < 0.0, "regeneration, not clamped");
    kani::cover!(soc > 0.0 && soc < 100.0 && used > 0.0, "consumption, not clamped");
    if soc > 0.0 && soc < 100.0 {
        assert!(within(remaining, soc, 100.0 / cap, 1e-3), "charge = 100 * (start - used) / capacity when not clamped");
    }
    if remaining <= 0.0 {
        assert!(soc == 0.0);
    }
}

/// using more energy never leaves more charge (two symbolic divisions compared: no verdict in
/// 600 s; kept as a documented attempt, not part of any tier)
fn soc_monotone(cap: f64) {
    let start = any_in(0.0, cap);
    let u1 = any_in(-1e3, 1e3);
    let u2 = any_in(-1e3, 1e3);
    kani::assume(u1 <= u2);
    let s1 = vehicle_ops::soc_from_battery_and_delta(&Energy::new(start), &Energy::new(u1), &Energy::new(cap));
    let s2 = vehicle_ops::soc_from_battery_and_delta(&Energy::new(start), &Energy::new(u2), &Energy::new(cap));
    kani::cover!(s1 > s2, "strictly less charge");
    assert!(s1 >= s2, "more energy used, not more charge");
}

/// `update_soc_percent` on a one-feature state model (the charge feature), with the by-name slot
/// resolution of the ordered container stubbed (see c03::s1 in vh-core): charge stays in range,
/// consumption never raises it, regeneration never lowers it - and in particular is NOT lost on an
/// edge entered with an empty battery.
pub mod soc_state {
    use super::*;
    use routee_compass_core::model::state::custom_feature_format::CustomFeatureFormat;
    use routee_compass_core::model::state::state_feature::StateFeature;
    use routee_compass_core::util::compact_ordered_hash_map::CompactOrderedHashMap as M;
    use std::hash::Hash;

    pub fn one_entry_get_index<K: Hash + Ord + PartialEq + Clone, V: Clone>(this: &M<K, V>, _k: &K) -> Option<usize> {
        match this {
            M::OneEntry { .. } => Some(0),
            _ => {
                kani::assume(false);
                None
            }
        }
    }
    pub fn one_entry_get<'a, K: Hash + Ord + PartialEq + Clone, V: Clone>(this: &'a M<K, V>, _k: &K) -> Option<&'a V> {
        match this {
            M::OneEntry { k1: _, v1 } => Some(v1),
            _ => {
                kani::assume(false);
                None
            }
        }
    }
    pub fn stub_names(_this: &StateModel) -> String {
        String::new()
    }

    pub fn update_soc(cap: f64) {
        let sm = StateModel::new(vec![(
            String::new(),
            StateFeature::Custom { r#type: String::new(), unit: String::new(), format: CustomFeatureFormat::FloatingPoint { initial: 50.0.into() } },
        )]);
        let start = any_in(0.0, 100.0);
        let delta = any_in(-1e3, 1e3);
        kani::assume(delta == 0.0 || delta.abs() >= 1e-3);
        let mut state = vec![StateVar(start)];
        let r = vehicle_ops::update_soc_percent(&mut state, "", &Energy::new(delta), &Energy::new(cap), &sm);
        kani::cover!(r.is_ok() && start == 0.0 && delta < 0.0, "regeneration on an edge entered empty");
        kani::cover!(r.is_ok() && state[0].0 == 0.0 && start > 0.0, "battery ran empty on this edge");
        assert!(r.is_ok());
        let soc = state[0].0;
        assert!(state.len() == 1 && soc >= 0.0 && soc <= 100.0, "state of charge stays within 0..100 percent");
        if delta > 0.0 {
            assert!(soc <= start, "consumption never raises the charge");
        }
        if delta < 0.0 {
            assert!(soc >= start, "regeneration never lowers the charge");
            if start < 99.0 {
                assert!(soc > start, "regenerated energy is not lost, whatever the charge the edge was entered with");
            }
        }
        if delta == 0.0 {
            assert!((soc - start).abs() <= 1e-9 * 100.0, "no energy, no change");
        }
        std::mem::forget(r);
        std::mem::forget(sm);
        std::mem::forget(state);
    }
}

// ---------------------------------------------------------------------------------------------
// (b) prediction record

/// harness-defined prediction model: returns the rate it was built with, whatever the inputs
pub struct FixedRate {
    pub rate: f64,
    pub unit: EnergyRateUnit,
}
impl PredictionModel for FixedRate {
    fn predict(
        &self,
        _speed: (Speed, SpeedUnit),
        _grade: (Grade, GradeUnit),
    ) -> Result<(EnergyRate, EnergyRateUnit), TraversalModelError> {
        Ok((EnergyRate::new(self.rate), self.unit))
    }
}

pub fn record(rate: f64, unit: EnergyRateUnit, ideal: f64, adj: f64) -> PredictionModelRecord {
    PredictionModelRecord {
        name: String::new(),
        prediction_model: Arc::new(FixedRate { rate, unit }),
        model_type: ModelType::Smartcore,
        speed_unit: SpeedUnit::MilesPerHour,
        grade_unit: GradeUnit::Decimal,
        energy_rate_unit: unit,
        ideal_energy_rate: EnergyRate::new(ideal),
        real_world_energy_adjustment: adj,
        cache: None,
    }
}

fn any_speed_grade() -> ((Speed, SpeedUnit), (Grade, GradeUnit)) {
    (
        (Speed::new(any_in(0.0, 200.0)), SpeedUnit::KilometersPerHour),
        (Grade::new(any_in(-0.3, 0.3)), GradeUnit::Decimal),
    )
}

/// energy = rate x adjustment x distance; the rate is symbolic, adjustment and distance are
/// per-instance constants (one symbolic factor per product, see C09)
fn predict_value(unit: EnergyRateUnit, eu: EnergyUnit, du: DistanceUnit, k_dist: f64, adj: f64, dist: f64) {
    let rate = any_mag(1e-6, 1e3);
    let rec = record(rate, unit, 0.0, adj);
    let (s, g) = any_speed_grade();
    let r = rec.predict(s, g, (Distance::new(dist), du));
    kani::cover!(r.is_ok() && rate < 0.0, "regeneration reaches the assertions");
    assert!(r.is_ok());
    let (e, u) = r.unwrap();
    assert!(u == eu, "energy is reported in the rate's own energy unit");
    assert!(within(rate, e.as_f64(), adj * dist * k_dist, 2e-3), "energy = rate x real-world adjustment x distance");
    assert!((e.as_f64() < 0.0) == (rate < 0.0), "regenerated energy stays negative");
    std::mem::forget(rec);
}

/// same with the distance symbolic and the rate pinned
fn predict_value_dist(unit: EnergyRateUnit, du: DistanceUnit, k_dist: f64, adj: f64, rate: f64) {
    let dist = any_in(1e-3, 1e7);
    let rec = record(rate, unit, 0.0, adj);
    let (s, g) = any_speed_grade();
    let r = rec.predict(s, g, (Distance::new(dist), du));
    kani::cover!(r.is_ok(), "reaches the assertions");
    assert!(r.is_ok());
    let (e, _) = r.unwrap();
    assert!(within(dist, e.as_f64(), adj * rate * k_dist, 2e-3), "energy = rate x real-world adjustment x distance");
    std::mem::forget(rec);
}

// ---------------------------------------------------------------------------------------------
// (c) vehicles on the state model they declare

/// ICE on the one-feature state model it declares: the fuel slot grows by exactly the energy the
/// prediction record returns for the edge (previous content pinned, rate symbolic, container
/// lookups stubbed as in soc_state)
fn ice_edge() {
    let rate = any_mag(1e-6, 1e1);
    let ice = ICE::new(String::new(), record(rate, EnergyRateUnit::GallonsGasolinePerMile, 0.02, 1.0)).unwrap();
    let sm = StateModel::new(ice.state_features());
    assert!(sm.len() == 1);
    let e0: f64 = 3.0;
    let mut state = vec![StateVar(e0)];
    let s = (Speed::new(55.0), SpeedUnit::MilesPerHour);
    let g = (Grade::new(0.01), GradeUnit::Decimal);
    let dist = 2.0;
    let r = ice.consume_energy(s, g, (Distance::new(dist), DistanceUnit::Miles), &mut state, &sm);
    kani::cover!(r.is_ok() && rate > 0.0, "fuel burnt");
    assert!(r.is_ok());
    assert!(state.len() == 1);
    // gallons = rate (gal/mi) x 2 mi, adjustment 1
    let lo = rate * (dist * (1.0 - 2e-3));
    let hi = rate * (dist * (1.0 + 2e-3));
    let used = state[0].0 - e0;
    if rate > 1e-3 {
        assert!(used >= lo * (1.0 - 1e-6) - 1e-9 && used <= hi * (1.0 + 1e-6) + 1e-9, "the fuel slot grows by rate x distance");
    }
    assert!((used > 0.0) == (rate > 0.0) || used == 0.0, "direction of the change follows the sign of the rate");
    std::mem::forget(r);
    std::mem::forget(ice);
    std::mem::forget(sm);
    std::mem::forget(state);
}

/// best-case energy used to order the search = ideal rate x distance (no state model involved)
fn best_case() {
    let ideal = any_in(1e-6, 1e1);
    let ice = ICE::new(String::new(), record(0.5, EnergyRateUnit::GallonsGasolinePerMile, ideal, 1.7)).unwrap();
    let dist_km: f64 = 16.09344; // ten miles
    let r = ice.best_case_energy((Distance::new(dist_km), DistanceUnit::Kilometers));
    kani::cover!(r.is_ok(), "estimate produced");
    assert!(r.is_ok());
    let (e, u) = r.unwrap();
    assert!(u == EnergyUnit::GallonsGasoline);
    assert!(within(ideal, e.as_f64(), 10.0, 2e-3), "best case = ideal rate x distance, without the real-world adjustment");
    std::mem::forget(ice);
}

pub mod q {
    use super::*;
    #[kani::proof]
    pub fn soc_in_range() { soc_range() }
    #[kani::proof]
    pub fn soc_percent_in_range() { soc_percent_range() }
    #[kani::proof]
    pub fn soc_unclamped_60() { soc_unclamped(60.0) }
    #[kani::proof]
    #[kani::stub(std::fmt::format, stub_format)]
    #[kani::stub(routee_compass_core::model::state::state_model::StateModel::get_names, soc_state::stub_names)]
    #[kani::stub(routee_compass_core::util::compact_ordered_hash_map::CompactOrderedHashMap::get_index, soc_state::one_entry_get_index)]
    #[kani::stub(routee_compass_core::util::compact_ordered_hash_map::CompactOrderedHashMap::get, soc_state::one_entry_get)]
    #[kani::unwind(4)]
    pub fn update_soc_state_60() { soc_state::update_soc(60.0) }
    #[kani::proof]
    #[kani::stub(std::fmt::format, stub_format)]
    #[kani::unwind(4)]
    pub fn best_case_energy() { best_case() }
    #[kani::proof]
    #[kani::stub(std::fmt::format, stub_format)]
    #[kani::unwind(4)]
    pub fn predict_kwhpmi_mi() { predict_value(EnergyRateUnit::KilowattHoursPerMile, EnergyUnit::KilowattHours, DistanceUnit::Miles, 1.0, 1.1, 2.5) }
    #[kani::proof]
    #[kani::stub(std::fmt::format, stub_format)]
    #[kani::unwind(4)]
    pub fn predict_ggpm_km() { predict_value(EnergyRateUnit::GallonsGasolinePerMile, EnergyUnit::GallonsGasoline, DistanceUnit::Kilometers, 1000.0 / 1609.344, 1.166, 10.0) }
    #[kani::proof]
    #[kani::stub(std::fmt::format, stub_format)]
    #[kani::unwind(4)]
    pub fn predict_kwhpkm_m_dist() { predict_value_dist(EnergyRateUnit::KilowattHoursPerKilometer, DistanceUnit::Meters, 0.001, 1.3, -0.2) }
}

/// documented attempt, in no tier: no verdict in 900 s even with the previous content pinned
pub mod attempts {
    use super::*;
    #[kani::proof]
    #[kani::stub(std::fmt::format, stub_format)]
    #[kani::stub(routee_compass_core::model::state::state_model::StateModel::get_names, soc_state::stub_names)]
    #[kani::stub(routee_compass_core::util::compact_ordered_hash_map::CompactOrderedHashMap::get_index, soc_state::one_entry_get_index)]
    #[kani::stub(routee_compass_core::util::compact_ordered_hash_map::CompactOrderedHashMap::get, soc_state::one_entry_get)]
    #[kani::unwind(16)]
    pub fn ice_consume() { ice_edge() }
}

pub mod t {
    use super::*;
    #[kani::proof]
    pub fn soc_unclamped_small() { soc_unclamped(0.5) }
    #[kani::proof]
    pub fn soc_unclamped_large() { soc_unclamped(1000.0) }
    #[kani::proof]
    #[kani::stub(std::fmt::format, stub_format)]
    #[kani::unwind(4)]
    pub fn predict_gdpm_ft() { predict_value(EnergyRateUnit::GallonsDieselPerMile, EnergyUnit::GallonsDiesel, DistanceUnit::Feet, 0.3048 / 1609.344, 1.0, 5280.0) }
    #[kani::proof]
    #[kani::stub(std::fmt::format, stub_format)]
    #[kani::unwind(4)]
    pub fn predict_kwhpm_mi_dist() { predict_value_dist(EnergyRateUnit::KilowattHoursPerMeter, DistanceUnit::Miles, 1609.344, 0.9, 0.0003) }
}

