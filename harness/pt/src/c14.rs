//! C14 - interpolated powertrain predictions stay faithful to the underlying model: kernels.
//!
//! Decided by the solver: the cell lookup (`find_nearest_index`) for every strictly increasing
//! axis of length 2..4 and every in-range target; rejection of points outside the grid or of the
//! wrong dimension; the 1-D strategies at grid points and the nearest strategies between them;
//! and that `InterpolationSpeedGradeModel::predict` (hook H2 constructor) never fails for ANY
//! speed / grade - it evaluates the interpolator at the input clamped to the grid.
//! Not decided: the blend arithmetic itself (2-D/3-D value within the corner range, exactness for
//! multilinear data): symbolic divisions and products, no verdict in 240-420 s in the probes.

use crate::util::*;
use routee_compass_core::model::unit::as_f64::AsF64;
use routee_compass_core::model::unit::{EnergyRateUnit, Grade, GradeUnit, Speed, SpeedUnit};
use routee_compass_powertrain::routee::prediction::interpolation::interp::{Interp1D, Interp2D, Interp3D, Interpolator, Strategy};
use routee_compass_powertrain::routee::prediction::interpolation::interpolation_speed_grade_model::InterpolationSpeedGradeModel;
use routee_compass_powertrain::routee::prediction::interpolation::utils::find_nearest_index;
use routee_compass_powertrain::routee::prediction::PredictionModel;

fn any_axis<const N: usize>() -> [f64; N] {
    let a: [f64; N] = kani::any();
    let mut i = 0;
    while i < N {
        kani::assume(a[i].is_finite() && a[i] >= -1e3 && a[i] <= 2e3);
        if i > 0 {
            kani::assume(a[i - 1] < a[i]);
        }
        i += 1;
    }
    a
}

fn any_value() -> f64 {
    any_in(-1e6, 1e6)
}

/// cell lookup: for a sorted axis and a target within it, the returned cell contains the target
fn nearest_index<const N: usize>() {
    let a = any_axis::<N>();
    let t: f64 = kani::any();
    kani::assume(t >= a[0] && t <= a[N - 1]);
    let r = find_nearest_index(&a, t);
    assert!(r.is_ok());
    let i = r.unwrap();
    kani::cover!(t == a[N - 1], "upper boundary");
    kani::cover!(t == a[0], "lower boundary");
    kani::cover!(N < 3 || (t > a[1] && i >= 1), "interior cell");
    assert!(i + 1 < N, "cell index leaves room for the upper neighbour");
    assert!(a[i] <= t && t <= a[i + 1], "the target lies in the returned cell");
}

fn interp1d<const N: usize>() -> (Interpolator, [f64; N], [f64; N]) {
    let x = any_axis::<N>();
    let f: [f64; N] = kani::any();
    let mut i = 0;
    while i < N {
        kani::assume(f[i].is_finite() && f[i] >= -1e6 && f[i] <= 1e6);
        i += 1;
    }
    let it = Interp1D::new(x.to_vec(), f.to_vec());
    assert!(it.is_ok(), "a strictly increasing axis with matching values is accepted");
    (Interpolator::Interp1D(it.unwrap()), x, f)
}

/// at every grid point each 1-D strategy returns the table value
fn interp1d_grid<const N: usize>(which: u8) {
    let (it, x, f) = interp1d::<N>();
    let k: usize = kani::any();
    kani::assume(k < N);
    let s = match which {
        0 => Strategy::Linear,
        1 => Strategy::LeftNearest,
        2 => Strategy::RightNearest,
        _ => Strategy::Nearest,
    };
    let r = it.interpolate(&[x[k]], &s);
    kani::cover!(k == N - 1, "last grid point");
    kani::cover!(k == 0, "first grid point");
    assert!(r.is_ok(), "grid points are inside the grid");
    assert!(r.unwrap() == f[k], "the underlying value is returned at a grid point");
    std::mem::forget(it);
}

/// between grid points the nearest strategies return one of the two neighbouring table values
fn interp1d_nearest_between<const N: usize>(which: u8) {
    let (it, x, f) = interp1d::<N>();
    let t: f64 = kani::any();
    kani::assume(t > x[0] && t < x[N - 1]);
    let mut cell = 0;
    let mut i = 0;
    while i + 1 < N {
        if x[i] < t {
            cell = i;
        }
        i += 1;
    }
    kani::assume(t != x[cell] && t != x[cell + 1]);
    let s = match which {
        1 => Strategy::LeftNearest,
        2 => Strategy::RightNearest,
        _ => Strategy::Nearest,
    };
    let r = it.interpolate(&[t], &s);
    kani::cover!(cell + 2 == N, "last cell");
    assert!(r.is_ok());
    let v = r.unwrap();
    match which {
        1 => assert!(v == f[cell], "left-nearest returns the lower neighbour"),
        2 => assert!(v == f[cell + 1], "right-nearest returns the upper neighbour"),
        _ => assert!(v == f[cell] || v == f[cell + 1], "nearest returns one of the two neighbours"),
    }
    std::mem::forget(it);
}

fn grid2<const NX: usize, const NY: usize>() -> (Interp2D, [f64; NX], [f64; NY]) {
    let x = any_axis::<NX>();
    let y = any_axis::<NY>();
    let mut f: Vec<Vec<f64>> = Vec::with_capacity(NX);
    let mut i = 0;
    while i < NX {
        let mut row = Vec::with_capacity(NY);
        let mut j = 0;
        while j < NY {
            row.push(any_value());
            j += 1;
        }
        f.push(row);
        i += 1;
    }
    let it = Interp2D::new(x.to_vec(), y.to_vec(), f);
    assert!(it.is_ok());
    (it.unwrap(), x, y)
}

/// points outside the grid, or of the wrong dimension, are rejected - never a panic
fn reject_outside_2d() {
    let (it, x, y) = grid2::<2, 3>();
    let it = Interpolator::Interp2D(it);
    let p: [f64; 2] = kani::any();
    kani::assume(!p[0].is_nan() && !p[1].is_nan());
    let outside = p[0] < x[0] || p[0] > x[1] || p[1] < y[0] || p[1] > y[2];
    kani::assume(outside);
    let r = it.interpolate(&p, &Strategy::Linear);
    kani::cover!(p[0] > x[1], "beyond the upper x bound");
    kani::cover!(p[1] < y[0], "below the lower y bound");
    assert!(r.is_err(), "a point outside the grid is rejected");
    let r1 = it.interpolate(&p[..1], &Strategy::Linear);
    assert!(r1.is_err(), "a point of the wrong dimension is rejected");
    let r0 = it.interpolate(&[], &Strategy::Linear);
    assert!(r0.is_err());
    std::mem::forget((r, r1, r0));
    std::mem::forget(it);
}

fn reject_outside_1d() {
    let (it, x, _f) = interp1d::<3>();
    let t: f64 = kani::any();
    kani::assume(!t.is_nan());
    kani::assume(t < x[0] || t > x[2]);
    let r = it.interpolate(&[t], &Strategy::Linear);
    kani::cover!(t > x[2], "beyond the upper bound");
    kani::cover!(t < x[0], "below the lower bound");
    assert!(r.is_err(), "a point outside the grid is rejected");
    let r2 = it.interpolate(&[t, t], &Strategy::Linear);
    assert!(r2.is_err(), "a point of the wrong dimension is rejected");
    std::mem::forget((r, r2));
    std::mem::forget(it);
}

/// `predict` never fails: inputs outside the grid are treated as the nearest grid boundary.
/// The model's grid is in its own units; the query arrives in the same units here (unit
/// conversion of the inputs is property C09), so the clamped point is known exactly.
fn predict_clamps() {
    // table values pinned to constants: the claim (no failure, whatever the inputs) does not depend
    // on them, and symbolic values keep the whole blend arithmetic (with Kani's NaN checks on every
    // product) in the formula - 130 s to more than 600 s from run to run
    let x = any_axis::<2>();
    let y = any_axis::<2>();
    let it = Interp2D::new(x.to_vec(), y.to_vec(), vec![vec![0.25, 0.5], vec![0.75, 1.5]]);
    assert!(it.is_ok());
    let it = it.unwrap();
    let m = InterpolationSpeedGradeModel::verif_from_parts(
        Interpolator::Interp2D(it),
        SpeedUnit::MilesPerHour,
        GradeUnit::Decimal,
        EnergyRateUnit::KilowattHoursPerMile,
    );
    let s: f64 = kani::any();
    let g: f64 = kani::any();
    kani::assume(s.is_finite() && g.is_finite());
    let r = m.predict((Speed::new(s), SpeedUnit::MilesPerHour), (Grade::new(g), GradeUnit::Decimal));
    kani::cover!(s > x[1] && g < y[0], "outside the grid on both axes");
    kani::cover!(s >= x[0] && s <= x[1] && g >= y[0] && g <= y[1], "inside the grid");
    assert!(r.is_ok(), "inputs outside the grid are snapped to the grid boundary instead of failing");
    let (rate, unit) = r.unwrap();
    assert!(unit == EnergyRateUnit::KilowattHoursPerMile);
    let _ = rate;
    std::mem::forget(m);
}

pub mod q {
    use super::*;
    #[kani::proof]
    #[kani::unwind(6)]
    pub fn nearest_index_len2() { nearest_index::<2>() }
    #[kani::proof]
    #[kani::unwind(6)]
    pub fn nearest_index_len3() { nearest_index::<3>() }
    #[kani::proof]
    #[kani::unwind(6)]
    pub fn nearest_index_len4() { nearest_index::<4>() }
    #[kani::proof]
    #[kani::stub(std::fmt::format, stub_format)]
    #[kani::unwind(6)]
    pub fn interp1d_grid_linear() { interp1d_grid::<3>(0) }
    #[kani::proof]
    #[kani::stub(std::fmt::format, stub_format)]
    #[kani::unwind(6)]
    pub fn interp1d_grid_left() { interp1d_grid::<3>(1) }
    #[kani::proof]
    #[kani::stub(std::fmt::format, stub_format)]
    #[kani::unwind(6)]
    pub fn interp1d_grid_right() { interp1d_grid::<3>(2) }
    #[kani::proof]
    #[kani::stub(std::fmt::format, stub_format)]
    #[kani::unwind(6)]
    pub fn interp1d_grid_nearest() { interp1d_grid::<3>(3) }
    #[kani::proof]
    #[kani::stub(std::fmt::format, stub_format)]
    #[kani::unwind(6)]
    pub fn interp1d_between_left() { interp1d_nearest_between::<3>(1) }
    #[kani::proof]
    #[kani::stub(std::fmt::format, stub_format)]
    #[kani::unwind(6)]
    pub fn interp1d_between_right() { interp1d_nearest_between::<3>(2) }
    #[kani::proof]
    #[kani::stub(std::fmt::format, stub_format)]
    #[kani::unwind(6)]
    pub fn reject_1d() { reject_outside_1d() }
    #[kani::proof]
    #[kani::stub(std::fmt::format, stub_format)]
    #[kani::unwind(6)]
    pub fn reject_2d() { reject_outside_2d() }
    #[kani::proof]
    #[kani::stub(std::fmt::format, stub_format)]
    #[kani::unwind(6)]
    pub fn predict_never_fails() { predict_clamps() }
}

pub mod t {
    use super::*;
    #[kani::proof]
    #[kani::stub(std::fmt::format, stub_format)]
    #[kani::unwind(7)]
    pub fn interp1d_grid_linear_len4() { interp1d_grid::<4>(0) }
    #[kani::proof]
    #[kani::stub(std::fmt::format, stub_format)]
    #[kani::unwind(6)]
    pub fn interp1d_between_nearest() { interp1d_nearest_between::<3>(3) }
}
