//! C14 - 2-D exactness at grid points and range of the blend. The grid AXES are pinned (a 3 x 3
//! non-uniform grid), the nine table values are symbolic; the query is any of the nine grid points
//! (exactness) resp. a pinned interior point (range).
use crate::util::*;
use routee_compass_powertrain::routee::prediction::interpolation::interp::{Interp2D, Interpolator, Strategy};

const X: [f64; 3] = [0.0, 10.0, 25.0];
const Y: [f64; 3] = [-0.2, 0.0, 0.3];

fn table() -> ([[f64; 3]; 3], Interpolator) {
    let f: [[f64; 3]; 3] = kani::any();
    let mut i = 0;
    while i < 3 {
        let mut j = 0;
        while j < 3 {
            kani::assume(f[i][j].is_finite() && f[i][j] >= -1e6 && f[i][j] <= 1e6);
            j += 1;
        }
        i += 1;
    }
    let it = Interp2D::new(X.to_vec(), Y.to_vec(), vec![f[0].to_vec(), f[1].to_vec(), f[2].to_vec()]);
    assert!(it.is_ok());
    (f, Interpolator::Interp2D(it.unwrap()))
}

/// at every grid point the interpolator returns the table value exactly
pub fn grid_point_exact() {
    let (f, it) = table();
    let i: usize = kani::any();
    let j: usize = kani::any();
    kani::assume(i < 3 && j < 3);
    let r = it.interpolate(&[X[i], Y[j]], &Strategy::Linear);
    kani::cover!(i == 2 && j == 2, "upper corner");
    kani::cover!(i == 1 && j == 1, "interior grid point");
    assert!(r.is_ok());
    let v = r.unwrap();
    assert!(v == f[i][j], "the underlying value is returned at a grid point");
    std::mem::forget(it);
}

/// inside a cell the value lies between the smallest and largest corner value (query pinned to a
/// per-instance point, table symbolic)
pub fn within_corner_range(px: f64, py: f64, ci: usize, cj: usize) {
    let (f, it) = table();
    let r = it.interpolate(&[px, py], &Strategy::Linear);
    assert!(r.is_ok());
    let v = r.unwrap();
    let c = [f[ci][cj], f[ci + 1][cj], f[ci][cj + 1], f[ci + 1][cj + 1]];
    let mut lo = c[0];
    let mut hi = c[0];
    let mut k = 1;
    while k < 4 {
        if c[k] < lo { lo = c[k]; }
        if c[k] > hi { hi = c[k]; }
        k += 1;
    }
    kani::cover!(lo < hi, "non-constant cell");
    let slack = 1e-9 * (hi.abs() + lo.abs()) + 1e-12;
    assert!(v >= lo - slack && v <= hi + slack, "the interpolated rate lies between the smallest and largest corner rates");
    std::mem::forget(it);
}

pub mod q {
    use super::*;
    #[kani::proof]
    #[kani::stub(std::fmt::format, stub_format)]
    #[kani::unwind(6)]
    pub fn interp2d_grid_point_exact() { grid_point_exact() }
}

pub mod t {
    use super::*;
    /// 824 s in the probe (a second point, (4.0, -0.05) in the first cell, did not return in 1200 s)
    #[kani::proof]
    #[kani::stub(std::fmt::format, stub_format)]
    #[kani::unwind(6)]
    pub fn interp2d_within_corners_b() { within_corner_range(17.5, 0.225, 1, 1) }
}

pub mod attempts {
    use super::*;
    #[kani::proof]
    #[kani::stub(std::fmt::format, stub_format)]
    #[kani::unwind(6)]
    pub fn interp2d_within_corners_a() { within_corner_range(4.0, -0.05, 0, 0) }
}
