#![allow(dead_code, unused_imports, unused_macros, static_mut_refs, clippy::all)]
#[cfg(kani)]
mod util;
#[cfg(kani)]
mod c08;
#[cfg(kani)]
mod c14;
#[cfg(kani)]
mod c14b;
