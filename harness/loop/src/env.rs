//! symbolic environment of the search-loop harnesses: an ARBITRARY directed graph with NV vertices
//! and NE edges (symbolic end points: self loops, parallel and anti-parallel edges included), an
//! arbitrary per-edge permission mask, arbitrary per-edge costs and per-vertex estimates.
//!
//! assume-guarantee: the callees of `run_a_star` that are decided on their own by other checks are
//! replaced by functions that implement (Kani stubs during model checking; in a NATIVE replay, where
//! Kani's stubs are not applied, hook H5 makes the same callees call the `#[no_mangle]` functions below)
//! exactly the contract proved there:
//!   Direction::get_incident_edges      -> the listed edges leaving / entering the vertex  (C15)
//!   Direction::perform_edge_traversal  -> an edge traversal of that edge with a finite, strictly
//!                                         positive total cost                               (C07)
//!   SearchInstance::estimate_traversal_cost -> a finite, non-negative estimate               (C07)
//! state vectors are empty in these harnesses (the loop never looks into them).

use routee_compass_core::algorithm::search::direction::Direction;
use routee_compass_core::algorithm::search::edge_traversal::EdgeTraversal;
use routee_compass_core::algorithm::search::search_error::SearchError;
use routee_compass_core::algorithm::search::search_instance::SearchInstance;
use routee_compass_core::model::access::access_model::AccessModel;
use routee_compass_core::model::access::access_model_error::AccessModelError;
use routee_compass_core::model::cost::cost_aggregation::CostAggregation;
use routee_compass_core::model::cost::cost_model::CostModel;
use routee_compass_core::model::frontier::frontier_model::FrontierModel;
use routee_compass_core::model::frontier::frontier_model_error::FrontierModelError;
use routee_compass_core::model::network::{Edge, EdgeId, Graph, Vertex, VertexId};
use routee_compass_core::model::state::state_feature::StateFeature;
use routee_compass_core::model::state::state_model::StateModel;
use routee_compass_core::model::termination::termination_model::TerminationModel;
use routee_compass_core::model::traversal::state::state_variable::StateVar;
use routee_compass_core::model::traversal::traversal_model::TraversalModel;
use routee_compass_core::model::traversal::traversal_model_error::TraversalModelError;
use routee_compass_core::model::unit::Cost;
use std::sync::Arc;

pub const MAXV: usize = 4;
pub const MAXE: usize = 6;
pub const MAXD: usize = 6;

pub const COST_LO: f64 = 0.0009765625; // 2^-10
pub const COST_HI: f64 = 1024.0; // 2^10
pub const LIMIT_HI: u64 = 1 << 20;
pub const TC_HI: f64 = 1099511627776.0; // 2^40

pub static mut OUT: [[EdgeId; MAXD]; MAXV] = [[EdgeId(0); MAXD]; MAXV];
pub static mut DEG_OUT: [usize; MAXV] = [0; MAXV];
pub static mut INN: [[EdgeId; MAXD]; MAXV] = [[EdgeId(0); MAXD]; MAXV];
pub static mut DEG_IN: [usize; MAXV] = [0; MAXV];
pub static mut EDGE_COST: [f64; MAXE] = [1.0; MAXE];
pub static mut HEUR: [f64; MAXV] = [0.0; MAXV];
/// how often the traversal stub was called for each edge (a forbidden edge must never be traversed)
pub static mut TRAVERSED: [u8; MAXE] = [0; MAXE];

#[no_mangle]
pub fn verif_incident_edges<'a>(d: &'a Direction, vertex_id: &VertexId, _si: &'a SearchInstance) -> Box<dyn Iterator<Item = &'a EdgeId> + 'a> {
    unsafe {
        let i = vertex_id.0;
        if i >= MAXV {
            return Box::new(std::iter::empty());
        }
        match d {
            Direction::Forward => Box::new(OUT[i][..DEG_OUT[i]].iter()),
            Direction::Reverse => Box::new(INN[i][..DEG_IN[i]].iter()),
        }
    }
}

#[no_mangle]
pub fn verif_edge_traversal(_d: &Direction, edge_id: EdgeId, _last: Option<EdgeId>, _start: &[StateVar], _si: &SearchInstance) -> Result<EdgeTraversal, SearchError> {
    unsafe {
        if edge_id.0 < MAXE && TRAVERSED[edge_id.0] < 200 {
            TRAVERSED[edge_id.0] += 1;
        }
    }
    Ok(EdgeTraversal {
        edge_id,
        access_cost: Cost::ZERO,
        traversal_cost: Cost::new(unsafe { EDGE_COST[edge_id.0] }),
        result_state: Vec::new(),
    })
}

#[no_mangle]
pub fn verif_cost_estimate(_si: &SearchInstance, src: VertexId, _dst: VertexId, _state: &[StateVar]) -> Result<Cost, SearchError> {
    Ok(Cost::new(unsafe { HEUR[src.0] }))
}

#[repr(C)]
struct RawInstant {
    tv_sec: i64,
    tv_nsec: u32,
}
pub fn fixed_instant() -> std::time::Instant {
    unsafe { std::mem::transmute::<RawInstant, std::time::Instant>(RawInstant { tv_sec: 1, tv_nsec: 0 }) }
}
/// stub for `Instant::now`: a fixed instant (no runtime limit is configured in these harnesses)
pub fn stub_now_fixed() -> std::time::Instant {
    fixed_instant()
}

pub struct Mask<const E: usize> {
    pub allowed: [bool; E],
}
impl<const E: usize> FrontierModel for Mask<E> {
    fn valid_frontier(&self, e: &Edge, _s: &[StateVar], _p: Option<&Edge>, _sm: &StateModel) -> Result<bool, FrontierModelError> {
        Ok(self.allowed[e.edge_id.0])
    }
}
pub struct NoOpTraverse;
impl TraversalModel for NoOpTraverse {
    fn state_features(&self) -> Vec<(String, StateFeature)> {
        vec![]
    }
    fn traverse_edge(&self, _t: (&Vertex, &Edge, &Vertex), _state: &mut Vec<StateVar>, _sm: &StateModel) -> Result<(), TraversalModelError> {
        Ok(())
    }
    fn estimate_traversal(&self, _od: (&Vertex, &Vertex), _state: &mut Vec<StateVar>, _sm: &StateModel) -> Result<(), TraversalModelError> {
        Ok(())
    }
}
pub struct NoOpAccess;
impl AccessModel for NoOpAccess {
    fn state_features(&self) -> Vec<(String, StateFeature)> {
        vec![]
    }
    fn access_edge(&self, _t: (&Vertex, &Edge, &Vertex, &Edge, &Vertex), _state: &mut Vec<StateVar>, _sm: &StateModel) -> Result<(), AccessModelError> {
        Ok(())
    }
}

/// everything the loop sees from outside, in plain arrays the oracle can read
pub struct Env<const NV: usize, const NE: usize> {
    pub src: [usize; NE],
    pub dst: [usize; NE],
    pub allowed: [bool; NE],
    pub cost: [f64; NE],
    pub forward: bool,
    pub s: usize,
    pub has_target: bool,
    pub t: usize,
    pub limit: u64,
}

impl<const NV: usize, const NE: usize> Env<NV, NE> {
    /// far end of the edge in search direction (the vertex a tree entry is keyed by)
    pub fn key(&self, e: usize) -> usize {
        if self.forward { self.dst[e] } else { self.src[e] }
    }
    /// near end of the edge in search direction (the parent vertex)
    pub fn term(&self, e: usize) -> usize {
        if self.forward { self.src[e] } else { self.dst[e] }
    }
    pub fn direction(&self) -> Direction {
        if self.forward { Direction::Forward } else { Direction::Reverse }
    }
    pub fn target(&self) -> Option<VertexId> {
        if self.has_target { Some(VertexId(self.t)) } else { None }
    }
    /// vertices reachable from `s` over permitted edges in search direction (boolean closure)
    pub fn reach(&self) -> [bool; NV] {
        let mut r = [false; NV];
        r[self.s] = true;
        let mut round = 0;
        while round + 1 < NV {
            let mut e = 0;
            while e < NE {
                if self.allowed[e] && r[self.term(e)] {
                    r[self.key(e)] = true;
                }
                e += 1;
            }
            round += 1;
        }
        r
    }
}

/// the raw symbolic inputs of an environment (everything `kani::any()` in one place, so that a
/// counterexample can be recorded and replayed natively from explicit values)
#[derive(Clone, Copy)]
pub struct EnvIn<const NV: usize, const NE: usize> {
    pub src: [usize; NE],
    pub dst: [usize; NE],
    pub allowed: [bool; NE],
    pub cost: [f64; NE],
    pub heur: [f64; NV],
    pub forward: bool,
    pub s: usize,
    pub t: usize,
    pub has_target: bool,
    pub limit: u64,
}

/// counterexample record: every symbolic input of a harness, as raw 64-bit words, in a fixed order.
/// the replay tool reads these assignments out of CBMC's trace (lib/replay_loop.py)
pub static mut CEX: [u64; 128] = [0; 128];
pub static mut CEX_N: usize = 0;
pub fn rec(v: u64) {
    unsafe {
        if CEX_N < 128 {
            CEX[CEX_N] = v;
        }
        CEX_N += 1;
    }
}
/// reader over a recorded value list (native replay)
pub struct Vals<'a> {
    pub v: &'a [u64],
    pub i: usize,
}
impl<'a> Vals<'a> {
    pub fn next(&mut self) -> u64 {
        let x = self.v[self.i];
        self.i += 1;
        x
    }
}

impl<const NV: usize, const NE: usize> EnvIn<NV, NE> {
    pub fn any() -> Self {
        EnvIn {
            src: kani::any(),
            dst: kani::any(),
            allowed: kani::any(),
            cost: kani::any(),
            heur: kani::any(),
            forward: kani::any(),
            s: kani::any(),
            t: kani::any(),
            has_target: kani::any(),
            limit: kani::any(),
        }
    }
    pub fn record(&self) {
        let mut e = 0;
        while e < NE {
            rec(self.src[e] as u64);
            rec(self.dst[e] as u64);
            rec(self.allowed[e] as u64);
            rec(self.cost[e].to_bits());
            e += 1;
        }
        let mut v = 0;
        while v < NV {
            rec(self.heur[v].to_bits());
            v += 1;
        }
        rec(self.forward as u64);
        rec(self.s as u64);
        rec(self.t as u64);
        rec(self.has_target as u64);
        rec(self.limit);
    }
    pub fn from_vals(r: &mut Vals) -> Self {
        let mut x = EnvIn { src: [0; NE], dst: [0; NE], allowed: [false; NE], cost: [0.0; NE], heur: [0.0; NV], forward: true, s: 0, t: 0, has_target: false, limit: 0 };
        let mut e = 0;
        while e < NE {
            x.src[e] = r.next() as usize;
            x.dst[e] = r.next() as usize;
            x.allowed[e] = r.next() != 0;
            x.cost[e] = f64::from_bits(r.next());
            e += 1;
        }
        let mut v = 0;
        while v < NV {
            x.heur[v] = f64::from_bits(r.next());
            v += 1;
        }
        x.forward = r.next() != 0;
        x.s = r.next() as usize;
        x.t = r.next() as usize;
        x.has_target = r.next() != 0;
        x.limit = r.next();
        x
    }
}

/// an arbitrary environment; fills the statics the stubs read; returns the search instance
pub fn any_env<const NV: usize, const NE: usize>() -> (Env<NV, NE>, SearchInstance) {
    let x = EnvIn::<NV, NE>::any();
    x.record();
    build_env(x)
}

/// the environment of the given raw inputs (the input constraints are `kani::assume`d here)
pub fn build_env<const NV: usize, const NE: usize>(x: EnvIn<NV, NE>) -> (Env<NV, NE>, SearchInstance) {
    assert!(NV <= MAXV && NE <= MAXE && NE <= MAXD);
    let EnvIn { src, dst, allowed, cost, heur, forward, s, t, has_target, limit } = x;
    let mut edges: [Edge; NE] = [Edge::default(); NE];
    let mut e = 0;
    while e < NE {
        kani::assume(src[e] < NV && dst[e] < NV);
        kani::assume(cost[e] >= COST_LO && cost[e] <= COST_HI);
        edges[e] = Edge::new(e, src[e], dst[e], 1.0);
        unsafe {
            EDGE_COST[e] = cost[e];
            TRAVERSED[e] = 0;
        }
        e += 1;
    }
    // adjacency lists: for each vertex the edges leaving / entering it, in edge-id (= file row) order
    let mut v = 0;
    while v < NV {
        let mut no = 0;
        let mut ni = 0;
        let mut e = 0;
        while e < NE {
            unsafe {
                if src[e] == v {
                    OUT[v][no] = EdgeId(e);
                    no += 1;
                }
                if dst[e] == v {
                    INN[v][ni] = EdgeId(e);
                    ni += 1;
                }
            }
            e += 1;
        }
        unsafe {
            DEG_OUT[v] = no;
            DEG_IN[v] = ni;
            let h = heur[v];
            kani::assume(h >= 0.0 && h <= COST_HI);
            HEUR[v] = h;
        }
        v += 1;
    }
    kani::assume(s < NV && t < NV);
    kani::assume(limit <= LIMIT_HI);
    let mut vertices: [Vertex; NV] = [Vertex::new(0, 0.0, 0.0); NV];
    let mut v = 0;
    while v < NV {
        vertices[v] = Vertex::new(v, 0.0, 0.0);
        v += 1;
    }
    let g = Graph { adj: Box::new([]), rev: Box::new([]), edges: Box::new(edges), vertices: Box::new(vertices) };
    let si = SearchInstance {
        directed_graph: Arc::new(g),
        state_model: Arc::new(StateModel::new(vec![])),
        traversal_model: Arc::new(NoOpTraverse),
        access_model: Arc::new(NoOpAccess),
        cost_model: Arc::new(CostModel::verif_from_parts(Vec::new(), Vec::new(), Vec::new(), Vec::new(), CostAggregation::Sum)),
        frontier_model: Arc::new(Mask::<NE> { allowed }),
        termination_model: Arc::new(TerminationModel::IterationsLimit { limit }),
    };
    (Env { src, dst, allowed, cost, forward, s, has_target, t, limit }, si)
}
