#![allow(dead_code, unused_imports, unused_macros, static_mut_refs, clippy::all)]
#[cfg(kani)]
mod util;
#[cfg(kani)]
mod env;
#[cfg(kani)]
mod astar;
