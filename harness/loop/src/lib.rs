#![allow(dead_code, unused_imports, unused_macros, static_mut_refs, clippy::all)]
#[cfg(kani)]
mod util;
#[cfg(kani)]
mod env;
#[cfg(kani)]
mod astar;
// `edge.rs` (edge-oriented route assembly, round 2 attempt): not compiled - both witnesses and the main
// harness ran out of memory (24 GB each after 11 min); kept as a documented attempt, see DESIGN 9.4
