//! the search loop of `run_a_star`, decided by induction over its iterations.
//!
//! `verif_a_star_{prologue,step,epilogue}` are the prologue, ONE iteration of the loop body and
//! the epilogue of the repository's `run_a_star`, re-emitted verbatim by the source slicer
//! (lib/slice_loop.py) from /repo's current text on every run. The harnesses decide
//!   base : the state the prologue hands to the loop satisfies the invariant INV;
//!   step : from EVERY search state satisfying INV - not only those some run reaches - one
//!          iteration of the real loop body either continues in a state satisfying INV, or leaves
//!          the loop / returns an error under exactly the documented conditions;
//!   exit : the result the epilogue builds from a state satisfying INV is the tree of that state.
//! INV (over an ARBITRARY graph with NV vertices and NE edges, arbitrary edge mask, costs,
//! estimates, direction, origin, optional destination and iteration limit):
//!   I1 the origin has cost 0 and no tree entry; every other vertex has a cost iff it has an entry
//!   I2 every entry v -> (parent p, edge e): e exists, is permitted, joins p to v in search
//!      direction, p has a cost and cost(p) < cost(v)                      [C01, C04]
//!   I3 costs are finite and >= 0; iterations <= limit. (Stated bound: every cost-so-far stays below
//!      2^40 - ASSUMED of the pre-state, not re-established: with edge costs in [2^-10, 2^10] this is a
//!      domain bound under which cost + edge cost > cost, i.e. no floating-point absorption.)
//!   I4 for every permitted edge p -> v: if p has a cost then v has a cost or p is still queued [C05]
//!   I5 every queued vertex has a cost
//!   I7 a destination that has a cost is still queued (the loop ends when it is popped)
//! Consequences decided at the exits: a search without destination ends with a tree whose vertices
//! are exactly those reachable over permitted edges; a search with a destination ends with the
//! destination in the tree only if it is reachable, and reports 'no path' only if it is not; the
//! iteration limit is the only other error.

use crate::env::*;
use crate::util::*;
use routee_compass_core::algorithm::search::a_star::a_star_algorithm::{
    verif_a_star_epilogue, verif_a_star_prologue, verif_a_star_step, VerifAStarState,
};
use routee_compass_core::algorithm::search::edge_traversal::EdgeTraversal;
use routee_compass_core::algorithm::search::search_error::SearchError;
use routee_compass_core::algorithm::search::search_tree_branch::SearchTreeBranch;
use routee_compass_core::model::network::{EdgeId, VertexId};
use routee_compass_core::model::termination::termination_model_error::TerminationModelError;
use routee_compass_core::model::unit::as_f64::AsF64;
use routee_compass_core::model::unit::cost::ReverseCost;
use routee_compass_core::model::unit::Cost;
use routee_compass_core::util::priority_queue::InternalPriorityQueue;
use routee_compass_core::util::verif_collections::{HashMap as TableMap, PriorityQueue as TableQueue};

/// the search state in plain arrays
#[derive(Clone, Copy)]
pub struct Abs<const NV: usize> {
    pub tc_has: [bool; NV],
    pub tc: [f64; NV],
    pub sol_has: [bool; NV],
    pub par: [usize; NV],
    pub via: [usize; NV],
    pub q_has: [bool; NV],
    pub it: u64,
    /// number of entries of the three containers (to exclude keys outside 0..NV)
    pub n_tc: usize,
    pub n_sol: usize,
    pub n_q: usize,
}

fn count<const NV: usize>(a: &[bool; NV]) -> usize {
    let mut n = 0;
    let mut v = 0;
    while v < NV {
        if a[v] {
            n += 1;
        }
        v += 1;
    }
    n
}

/// INV
pub fn inv<const NV: usize, const NE: usize>(a: &Abs<NV>, env: &Env<NV, NE>, bounded: bool) -> bool {
    let s = env.s;
    let mut ok = true;
    // containers hold nothing but vertices 0..NV
    ok &= a.n_tc == count(&a.tc_has) && a.n_sol == count(&a.sol_has) && a.n_q == count(&a.q_has);
    // I3
    if a.it > env.limit {
        return false;
    }
    // I1
    ok &= a.tc_has[s] && a.tc[s] == 0.0 && !a.sol_has[s];
    let mut v = 0;
    while v < NV {
        if v != s {
            ok &= a.tc_has[v] == a.sol_has[v];
        }
        if a.tc_has[v] {
            ok &= a.tc[v] >= 0.0 && a.tc[v] < f64::INFINITY;
            if bounded {
                ok &= a.tc[v] <= TC_HI;
            }
        }
        if a.sol_has[v] {
            // I2
            let e = a.via[v];
            ok &= e < NE;
            if e < NE {
                ok &= env.allowed[e] && env.key(e) == v && env.term(e) == a.par[v];
                let p = a.par[v];
                ok &= p < NV;
                if p < NV {
                    ok &= a.tc_has[p] && a.tc[p] < a.tc[v];
                }
            }
        }
        // I5
        if a.q_has[v] {
            ok &= a.tc_has[v];
        }
        v += 1;
    }
    // I4
    let mut e = 0;
    while e < NE {
        if env.allowed[e] && a.tc_has[env.term(e)] {
            ok &= a.tc_has[env.key(e)] || a.q_has[env.term(e)];
        }
        e += 1;
    }
    // I7
    if env.has_target {
        ok &= env.t != s;
        if a.tc_has[env.t] {
            ok &= a.q_has[env.t];
        }
    }
    ok
}

/// read a concrete search state back into arrays
pub fn abstract_of<const NV: usize>(st: &VerifAStarState) -> Abs<NV> {
    let mut a = Abs::<NV> {
        tc_has: [false; NV],
        tc: [0.0; NV],
        sol_has: [false; NV],
        par: [usize::MAX; NV],
        via: [usize::MAX; NV],
        q_has: [false; NV],
        it: st.iterations,
        n_tc: st.traversal_costs.len(),
        n_sol: st.solution.len(),
        n_q: st.costs.len(),
    };
    let mut v = 0;
    while v < NV {
        if let Some(c) = st.traversal_costs.get(&VertexId(v)) {
            a.tc_has[v] = true;
            a.tc[v] = c.as_f64();
        }
        if let Some(b) = st.solution.get(&VertexId(v)) {
            a.sol_has[v] = true;
            a.par[v] = b.terminal_vertex.0;
            a.via[v] = b.edge_traversal.edge_id.0;
        }
        a.q_has[v] = st.costs.get_priority(&VertexId(v)).is_some();
        v += 1;
    }
    a
}

/// the raw symbolic inputs of a search state
#[derive(Clone, Copy)]
pub struct StateIn<const NV: usize> {
    pub tc_has: [bool; NV],
    pub tc: [f64; NV],
    pub sol_has: [bool; NV],
    pub par: [usize; NV],
    pub via: [usize; NV],
    pub q_has: [bool; NV],
    pub q_pri: [f64; NV],
    pub acc: [f64; NV],
    pub it: u64,
}
impl<const NV: usize> StateIn<NV> {
    pub fn any() -> Self {
        StateIn { tc_has: kani::any(), tc: kani::any(), sol_has: kani::any(), par: kani::any(), via: kani::any(), q_has: kani::any(), q_pri: kani::any(), acc: kani::any(), it: kani::any() }
    }
    pub fn record(&self) {
        let mut v = 0;
        while v < NV {
            rec(self.tc_has[v] as u64);
            rec(self.tc[v].to_bits());
            rec(self.sol_has[v] as u64);
            rec(self.par[v] as u64);
            rec(self.via[v] as u64);
            rec(self.q_has[v] as u64);
            rec(self.q_pri[v].to_bits());
            rec(self.acc[v].to_bits());
            v += 1;
        }
        rec(self.it);
    }
    pub fn from_vals(r: &mut Vals) -> Self {
        let mut x = StateIn { tc_has: [false; NV], tc: [0.0; NV], sol_has: [false; NV], par: [0; NV], via: [0; NV], q_has: [false; NV], q_pri: [0.0; NV], acc: [0.0; NV], it: 0 };
        let mut v = 0;
        while v < NV {
            x.tc_has[v] = r.next() != 0;
            x.tc[v] = f64::from_bits(r.next());
            x.sol_has[v] = r.next() != 0;
            x.par[v] = r.next() as usize;
            x.via[v] = r.next() as usize;
            x.q_has[v] = r.next() != 0;
            x.q_pri[v] = f64::from_bits(r.next());
            x.acc[v] = f64::from_bits(r.next());
            v += 1;
        }
        x.it = r.next();
        x
    }
}

/// an ARBITRARY search state (arrays fully symbolic) and the concrete containers holding it
pub fn any_state<const NV: usize>() -> (Abs<NV>, VerifAStarState) {
    let x = StateIn::<NV>::any();
    x.record();
    build_state(x)
}

pub fn build_state<const NV: usize>(x: StateIn<NV>) -> (Abs<NV>, VerifAStarState) {
    let mut a = Abs::<NV> {
        tc_has: x.tc_has,
        tc: x.tc,
        sol_has: x.sol_has,
        par: x.par,
        via: x.via,
        q_has: x.q_has,
        it: x.it,
        n_tc: 0,
        n_sol: 0,
        n_q: 0,
    };
    let q_pri = x.q_pri;
    let mut traversal_costs: TableMap<VertexId, Cost> = TableMap::new();
    let mut solution: TableMap<VertexId, SearchTreeBranch> = TableMap::new();
    let mut costs: InternalPriorityQueue<VertexId, ReverseCost> = InternalPriorityQueue::default();
    let mut v = 0;
    while v < NV {
        kani::assume(!q_pri[v].is_nan() && !a.tc[v].is_nan());
        if a.tc_has[v] {
            traversal_costs.insert(VertexId(v), Cost::new(a.tc[v]));
        }
        if a.sol_has[v] {
            let acc: f64 = x.acc[v];
            kani::assume(!acc.is_nan());
            solution.insert(
                VertexId(v),
                SearchTreeBranch {
                    terminal_vertex: VertexId(a.par[v]),
                    edge_traversal: EdgeTraversal {
                        edge_id: EdgeId(a.via[v]),
                        access_cost: Cost::ZERO,
                        traversal_cost: Cost::new(acc),
                        result_state: Vec::new(),
                    },
                },
            );
        }
        if a.q_has[v] {
            costs.push(VertexId(v), Cost::new(q_pri[v]).into());
        }
        v += 1;
    }
    a.n_tc = count(&a.tc_has);
    a.n_sol = count(&a.sol_has);
    a.n_q = count(&a.q_has);
    let st = VerifAStarState { costs, traversal_costs, solution, initial_state: Vec::new(), start_time: fixed_instant(), iterations: a.it };
    (a, st)
}

/// 0 = terminated by a limit, 1 = no path, 2 = anything else
fn classify(e: &SearchError) -> u8 {
    match e {
        SearchError::TerminationModelFailure { source: TerminationModelError::QueryTerminated(_) } => 0,
        SearchError::NoPathExistsBetweenVertices(_, _) => 1,
        _ => 2,
    }
}

pub fn base<const NV: usize, const NE: usize>() {
    let (env, si) = any_env::<NV, NE>();
    let mut out: Option<VerifAStarState> = None;
    let r = verif_a_star_prologue(VertexId(env.s), env.target(), &env.direction(), None, &si, &mut out);
    kani::cover!(out.is_some(), "the prologue falls through to the loop");
    kani::cover!(out.is_none(), "origin equals destination: early return");
    assert!(r.is_ok(), "the prologue does not fail in this environment");
    if env.has_target && env.t == env.s {
        assert!(out.is_none(), "origin == destination returns before the loop");
        if let Ok(res) = &r {
            assert!(res.tree.len() == 0, "origin == destination: empty tree");
        }
    } else {
        assert!(out.is_some());
        if let Some(st) = &out {
            let a = abstract_of::<NV>(st);
            assert!(inv(&a, &env, true), "the state handed to the loop satisfies the invariant");
            assert!(a.it == 0 && a.q_has[env.s] && a.n_q == 1 && a.n_sol == 0 && a.n_tc == 1);
        }
    }
    std::mem::forget(r);
    std::mem::forget(out);
    std::mem::forget(si);
}

/// one search direction per harness instance (halves the symbolic execution; both run in parallel)
pub fn step_dir<const NV: usize, const NE: usize>(forward: bool) {
    let mut ei = EnvIn::<NV, NE>::any();
    ei.forward = forward;
    ei.record();
    let xi = StateIn::<NV>::any();
    xi.record();
    step_core(ei, xi);
}

pub fn step<const NV: usize, const NE: usize>() {
    let ei = EnvIn::<NV, NE>::any();
    ei.record();
    let xi = StateIn::<NV>::any();
    xi.record();
    step_core(ei, xi);
}

/// native replay of a recorded counterexample of `step`: the queue's choice among equal
/// priorities is the only nondeterminism left; every choice the queue model admits is tried
pub fn replay_step<const NV: usize, const NE: usize>(vals: &[u64]) {
    replay_with(vals, |r| {
        let ei = EnvIn::<NV, NE>::from_vals(r);
        let xi = StateIn::<NV>::from_vals(r);
        move || step_core(ei, xi)
    });
}

pub fn replay_with<F: Fn() + std::panic::RefUnwindSafe, B: Fn(&mut Vals) -> F>(vals: &[u64], build: B) {
    let mut violations = 0;
    let mut pick = 0usize;
    while pick < routee_compass_core::util::verif_collections::CAP {
        let mut r = Vals { v: vals, i: 0 };
        let f = build(&mut r);
        let res = std::panic::catch_unwind(|| kani::concrete_playback_run(vec![pick.to_le_bytes().to_vec()], &f));
        if let Err(e) = res {
            let msg = if let Some(s) = e.downcast_ref::<String>() { s.clone() } else if let Some(s) = e.downcast_ref::<&str>() { s.to_string() } else { String::from("?") };
            let benign = msg.contains("kani::assume") || msg.contains("concrete values left over") || msg.contains("Not enough det vals");
            println!("[replay] queue choice {}: {}{}", pick, if benign { "(not a violation) " } else { "VIOLATION " }, msg);
            if !benign {
                violations += 1;
            }
        } else {
            println!("[replay] queue choice {}: harness passed", pick);
        }
        pick += 1;
    }
    assert!(violations == 0, "the recorded counterexample reproduces natively ({} queue choice(s))", violations);
}

pub fn step_core<const NV: usize, const NE: usize>(ei: EnvIn<NV, NE>, xi: StateIn<NV>) {
    let (env, si) = build_env::<NV, NE>(ei);
    let (a, st) = build_state::<NV>(xi);
    kani::assume(inv(&a, &env, true));
    let reach = env.reach();
    let mut out: Option<VerifAStarState> = None;
    let r = verif_a_star_step(VertexId(env.s), env.target(), &env.direction(), None, &si, st, &mut out);
    // a forbidden edge is never even traversed
    let mut e = 0;
    while e < NE {
        if !env.allowed[e] {
            assert!(unsafe { TRAVERSED[e] } == 0, "a forbidden edge is never traversed");
        }
        e += 1;
    }
    match &r {
        Ok(true) => {
            kani::cover!(true, "the loop continues");
            assert!(out.is_some());
            if let Some(st2) = &out {
                let b = abstract_of::<NV>(st2);
                kani::cover!(b.n_sol > a.n_sol, "a vertex joined the tree");
                kani::cover!(b.n_sol == a.n_sol && b.n_q + 1 == a.n_q, "nothing improved");
                assert!(b.it == a.it + 1, "one expansion step per iteration");
                assert!(inv(&b, &env, false), "the invariant is preserved by one iteration of the loop body");
            }
        }
        Ok(false) => {
            kani::cover!(!env.has_target, "queue exhausted in a search without destination");
            kani::cover!(env.has_target, "destination popped");
            assert!(out.is_some());
            if let Some(st2) = &out {
                let b = abstract_of::<NV>(st2);
                assert!(inv_tree_only(&b, &env, false), "the tree left behind satisfies I1-I3");
                if env.has_target {
                    assert!(b.sol_has[env.t], "the destination is in the tree when the loop ends");
                    assert!(reach[env.t], "a destination that was found is reachable over permitted edges");
                } else {
                    let mut v = 0;
                    while v < NV {
                        assert!(b.tc_has[v] == reach[v], "the tree spans exactly the reachable vertices");
                        if v != env.s {
                            assert!(b.sol_has[v] == reach[v]);
                        }
                        v += 1;
                    }
                }
            }
        }
        Err(err) => {
            let c = classify(err);
            kani::cover!(c == 0, "iteration limit reached");
            kani::cover!(c == 1, "no path");
            assert!(c != 2, "the loop fails only by limit or by 'no path'");
            if c == 0 {
                assert!(a.it >= env.limit, "the limit error is raised only when the limit is exhausted");
            }
            if c == 1 {
                assert!(env.has_target && !reach[env.t], "'no path' only if the destination is unreachable");
            }
        }
    }
    if a.it >= env.limit {
        assert!(matches!(&r, Err(e) if classify(e) == 0), "an exhausted iteration limit stops the search before the next expansion");
    }
    std::mem::forget(r);
    std::mem::forget(out);
    std::mem::forget(si);
}

/// C10, solution-size limit inside the loop: the body is entered only while the tree has at most
/// `size_limit` entries and one iteration adds at most one entry per incident edge of the popped
/// vertex - so the tree never exceeds the limit by more than one vertex's degree; a tree beyond the
/// limit yields the terminated error before anything is expanded
pub fn step_size<const NV: usize, const NE: usize>() {
    let ei = EnvIn::<NV, NE>::any();
    ei.record();
    let xi = StateIn::<NV>::any();
    xi.record();
    let size_limit: usize = kani::any();
    rec(size_limit as u64);
    step_size_core(ei, xi, size_limit);
}

pub fn replay_step_size<const NV: usize, const NE: usize>(vals: &[u64]) {
    replay_with(vals, |r| {
        let ei = EnvIn::<NV, NE>::from_vals(r);
        let xi = StateIn::<NV>::from_vals(r);
        let size_limit = r.next() as usize;
        move || step_size_core(ei, xi, size_limit)
    });
}

pub fn step_size_core<const NV: usize, const NE: usize>(ei: EnvIn<NV, NE>, xi: StateIn<NV>, size_limit: usize) {
    use routee_compass_core::model::termination::termination_model::TerminationModel;
    let (env, mut si) = build_env::<NV, NE>(ei);
    si.termination_model = std::sync::Arc::new(TerminationModel::SolutionSizeLimit { limit: size_limit });
    let (a, st) = build_state::<NV>(xi);
    kani::assume(inv(&a, &env, true));
    kani::assume(size_limit <= (1usize << 20));
    let mut out: Option<VerifAStarState> = None;
    let r = verif_a_star_step(VertexId(env.s), env.target(), &env.direction(), None, &si, st, &mut out);
    kani::cover!(matches!(&r, Err(e) if classify(e) == 0), "size limit reached");
    kani::cover!(matches!(&r, Ok(true)), "the loop continues");
    if a.n_sol > size_limit {
        assert!(matches!(&r, Err(e) if classify(e) == 0), "a tree beyond the size limit stops the search with the terminated error");
    } else {
        assert!(!matches!(&r, Err(e) if classify(e) == 0), "no terminated error while the tree is within the limit");
        if let (Ok(true), Some(st2)) = (&r, &out) {
            let b = abstract_of::<NV>(st2);
            assert!(b.n_sol <= size_limit + NE, "the tree exceeds the limit by at most one vertex's degree");
            assert!(b.n_sol <= a.n_sol + NE);
        }
    }
    std::mem::forget(r);
    std::mem::forget(out);
    std::mem::forget(si);
}

/// INV without the queue clauses (the queue is irrelevant once the loop has ended)
fn inv_tree_only<const NV: usize, const NE: usize>(a: &Abs<NV>, env: &Env<NV, NE>, bounded: bool) -> bool {
    let mut b = *a;
    // make I4/I5/I7 trivially true: everything with a cost counts as queued
    b.q_has = b.tc_has;
    b.n_q = count(&b.q_has);
    inv(&b, env, bounded)
}

pub fn exit<const NV: usize, const NE: usize>() {
    let (env, si) = any_env::<NV, NE>();
    let (a, st) = any_state::<NV>();
    kani::assume(inv_tree_only(&a, &env, false));
    let r = verif_a_star_epilogue(VertexId(env.s), env.target(), &env.direction(), None, &si, st);
    kani::cover!(r.is_ok() && a.n_sol >= 1, "a non-empty tree is returned");
    assert!(r.is_ok(), "the epilogue returns the tree");
    if let Ok(res) = &r {
        assert!(res.iterations == a.it);
        assert!(res.tree.len() == a.n_sol);
        let mut v = 0;
        while v < NV {
            match res.tree.get(&VertexId(v)) {
                Some(b) => assert!(a.sol_has[v] && b.terminal_vertex.0 == a.par[v] && b.edge_traversal.edge_id.0 == a.via[v], "the returned tree is the loop's tree"),
                None => assert!(!a.sol_has[v]),
            }
            v += 1;
        }
    }
    std::mem::forget(r);
    std::mem::forget(si);
}

macro_rules! stubs {
    ($(#[$m:meta])* $name:ident, $unwind:expr, $body:expr) => {
        $(#[$m])*
        #[kani::proof]
        #[kani::unwind($unwind)]
        #[kani::stub(std::fmt::format, stub_format)]
        #[kani::stub(std::time::Instant::now, stub_now_fixed)]
        #[kani::stub(routee_compass_core::algorithm::search::direction::Direction::get_incident_edges, verif_incident_edges)]
        #[kani::stub(routee_compass_core::algorithm::search::direction::Direction::perform_edge_traversal, verif_edge_traversal)]
        #[kani::stub(routee_compass_core::algorithm::search::search_instance::SearchInstance::estimate_traversal_cost, verif_cost_estimate)]
        pub fn $name() {
            $body
        }
    };
}

pub mod q1 {
    use super::*;
    // smallest instance: two vertices, one edge (self loop or either orientation)
    stubs!(step_v2_e1, 3, step::<2, 1>());
}
pub mod q {
    use super::*;
    stubs!(base_v2_e2, 4, base::<2, 2>());
    stubs!(step_v2_e2, 4, step::<2, 2>());
    stubs!(exit_v2_e2, 4, exit::<2, 2>());
    stubs!(base_v3_e3, 5, base::<3, 3>());
    stubs!(step_v3_e3, 5, step::<3, 3>());
    stubs!(exit_v3_e3, 5, exit::<3, 3>());
}
pub mod t {
    use super::*;
    stubs!(step_size_v2_e2, 4, step_size::<2, 2>());
    stubs!(base_v3_e4, 6, base::<3, 4>());
    stubs!(exit_v4_e4, 6, exit::<4, 4>());
}
/// documented attempts, in no tier. step (3,4): CBMC reports "one expansion step per iteration" after
/// 1480 s with a counterexample (reverse search, popped vertex without incident edges, iteration
/// counter 2^20 - 1) that does NOT reproduce natively - the recorded words pass on the real loop body
/// for every queue choice; an artefact of the encoding at this size, not a property violation
/// (DESIGN 9.4). step (4,4): no verdict within 5400 s.
pub mod ta {
    use super::*;
    stubs!(step_v3_e4, 6, step::<3, 4>());
    stubs!(step_v4_e4, 6, step::<4, 4>());
}


// ---------------------------------------------------------------------------------------------
// Dijkstra (weight factor 0): the cost labels are LEAST costs  (C02 on small graphs, C05 "labelled
// with its least cost")
// ---------------------------------------------------------------------------------------------

/// least cost from the origin over permitted edges in search direction: Bellman-Ford on the
/// symbolic edge table (NV - 1 rounds, the same left-to-right floating-point sums the search forms)
pub fn least_costs<const NV: usize, const NE: usize>(env: &Env<NV, NE>) -> [f64; NV] {
    let mut d = [f64::INFINITY; NV];
    d[env.s] = 0.0;
    let mut round = 0;
    while round + 1 < NV {
        relax_all(env, &mut d);
        round += 1;
    }
    d
}

fn relax_all<const NV: usize, const NE: usize>(env: &Env<NV, NE>, d: &mut [f64; NV]) {
    let mut e = 0;
    while e < NE {
        if env.allowed[e] {
            let via = d[env.term(e)] + env.cost[e];
            if via < d[env.key(e)] {
                d[env.key(e)] = via;
            }
        }
        e += 1;
    }
}

/// INV_D: the extra clauses that hold when the search is Dijkstra's
///   D1 cost(v) >= least(v) for every labelled v
///   D2 a closed vertex (labelled, not queued) has cost(v) == least(v)
///   D3 a queued vertex is queued with priority == its cost
///   D4 every permitted edge u -> v out of a closed u is relaxed: v labelled, cost(v) <= cost(u) + c
///   D7 an entry's parent is closed and cost(v) == cost(parent) + c(edge) exactly
pub fn inv_d<const NV: usize, const NE: usize>(a: &Abs<NV>, q_pri_ok: &[bool; NV], d: &[f64; NV], env: &Env<NV, NE>) -> bool {
    let mut ok = true;
    let mut v = 0;
    while v < NV {
        let closed = a.tc_has[v] && !a.q_has[v];
        if a.tc_has[v] {
            ok &= a.tc[v] >= d[v];
        }
        if closed {
            ok &= a.tc[v] == d[v];
        }
        if a.q_has[v] {
            ok &= q_pri_ok[v];
        }
        if a.sol_has[v] && a.via[v] < NE && a.par[v] < NV {
            let p = a.par[v];
            ok &= a.tc_has[p] && !a.q_has[p];
            ok &= a.tc[v] == a.tc[p] + env.cost[a.via[v]];
        }
        v += 1;
    }
    let mut e = 0;
    while e < NE {
        let u = env.term(e);
        if env.allowed[e] && a.tc_has[u] && !a.q_has[u] {
            let w = env.key(e);
            ok &= a.tc_has[w] && a.tc[w] <= a.tc[u] + env.cost[e];
        }
        e += 1;
    }
    ok
}

/// for every vertex: is it queued with priority == its current cost
fn queue_priorities_match<const NV: usize>(st: &VerifAStarState, a: &Abs<NV>) -> [bool; NV] {
    let mut r = [false; NV];
    let mut v = 0;
    while v < NV {
        if let Some(p) = st.costs.get_priority(&VertexId(v)) {
            let want: ReverseCost = Cost::new(a.tc[v]).into();
            r[v] = *p == want;
        }
        v += 1;
    }
    r
}

pub fn step_dijkstra<const NV: usize, const NE: usize>() {
    let ei = EnvIn::<NV, NE>::any();
    ei.record();
    let xi = StateIn::<NV>::any();
    xi.record();
    step_dijkstra_core(ei, xi);
}

pub fn replay_step_dijkstra<const NV: usize, const NE: usize>(vals: &[u64]) {
    replay_with(vals, |r| {
        let ei = EnvIn::<NV, NE>::from_vals(r);
        let xi = StateIn::<NV>::from_vals(r);
        move || step_dijkstra_core(ei, xi)
    });
}

pub fn step_dijkstra_core<const NV: usize, const NE: usize>(ei: EnvIn<NV, NE>, xi: StateIn<NV>) {
    let (env, si) = build_env::<NV, NE>(ei);
    let d = least_costs(&env);
    // d is a fixpoint of relaxation (always true after NV - 1 rounds; decided by `bf_fixpoint`)
    let mut d2 = d;
    relax_all(&env, &mut d2);
    let mut v = 0;
    while v < NV {
        kani::assume(d2[v] == d[v]);
        v += 1;
    }
    let (a, st) = build_state::<NV>(xi);
    kani::assume(inv(&a, &env, true));
    let pri_ok = queue_priorities_match(&st, &a);
    kani::assume(inv_d(&a, &pri_ok, &d, &env));
    let mut out: Option<VerifAStarState> = None;
    let r = verif_a_star_step(VertexId(env.s), env.target(), &env.direction(), Some(Cost::ZERO), &si, st, &mut out);
    match &r {
        Ok(true) => {
            kani::cover!(true, "the loop continues");
            if let Some(st2) = &out {
                let b = abstract_of::<NV>(st2);
                let pri2 = queue_priorities_match(st2, &b);
                kani::cover!(b.n_sol > a.n_sol, "a vertex joined the tree");
                assert!(inv(&b, &env, false), "the structural invariant is preserved with weight factor 0 as well");
                assert!(inv_d(&b, &pri2, &d, &env), "Dijkstra's invariant is preserved: closed vertices carry least costs");
            }
        }
        Ok(false) => {
            kani::cover!(env.has_target, "destination popped");
            kani::cover!(!env.has_target, "queue exhausted");
            if let Some(st2) = &out {
                let b = abstract_of::<NV>(st2);
                if env.has_target {
                    assert!(b.tc[env.t] == d[env.t], "the destination is reached with its least cost");
                } else {
                    let mut v = 0;
                    while v < NV {
                        if b.tc_has[v] {
                            assert!(b.tc[v] == d[v], "every vertex of the tree is labelled with its least cost");
                        }
                        v += 1;
                    }
                }
            }
        }
        Err(_) => {}
    }
    std::mem::forget(r);
    std::mem::forget(out);
    std::mem::forget(si);
}

/// the prologue establishes INV_D (nothing is closed yet, the origin is queued with priority 0)
pub fn base_dijkstra<const NV: usize, const NE: usize>() {
    let (env, si) = any_env::<NV, NE>();
    let d = least_costs(&env);
    let mut out: Option<VerifAStarState> = None;
    let r = verif_a_star_prologue(VertexId(env.s), env.target(), &env.direction(), Some(Cost::ZERO), &si, &mut out);
    kani::cover!(out.is_some(), "the prologue falls through to the loop");
    if let Some(st) = &out {
        let a = abstract_of::<NV>(st);
        let pri = queue_priorities_match(st, &a);
        assert!(inv_d(&a, &pri, &d, &env), "the state handed to the loop satisfies Dijkstra's invariant");
    }
    std::mem::forget(r);
    std::mem::forget(out);
    std::mem::forget(si);
}

/// lemma: after NV - 1 rounds the least-cost table is a fixpoint of relaxation
pub fn bf_fixpoint<const NV: usize, const NE: usize>() {
    let (env, si) = any_env::<NV, NE>();
    let d = least_costs(&env);
    let mut d2 = d;
    relax_all(&env, &mut d2);
    let mut v = 0;
    while v < NV {
        assert!(d2[v] == d[v], "least costs are a fixpoint of relaxation");
        v += 1;
    }
    kani::cover!(NV < 2 || d[if env.s == 0 { 1 } else { 0 }] < f64::INFINITY, "another vertex is reachable");
    std::mem::forget(si);
}

pub mod dj {
    use super::*;
    stubs!(bf_fixpoint_v2_e2, 4, bf_fixpoint::<2, 2>());
    stubs!(base_dijkstra_v2_e2, 4, base_dijkstra::<2, 2>());
    stubs!(step_dijkstra_v2_e1, 3, step_dijkstra::<2, 1>());
    stubs!(step_dijkstra_v2_e2, 4, step_dijkstra::<2, 2>());
}
pub mod djt {
    use super::*;
    stubs!(base_dijkstra_v3_e3, 5, base_dijkstra::<3, 3>());
}
/// documented attempts, in no tier: the fixpoint lemma at three vertices (a chain of floating-point
/// minima) did not return in 2400 s; the Dijkstra step at (3,3) did not return in 5000 s
pub mod dja {
    use super::*;
    stubs!(bf_fixpoint_v3_e3, 5, bf_fixpoint::<3, 3>());
    stubs!(step_dijkstra_v3_e3, 5, step_dijkstra::<3, 3>());
}
