//! helpers shared by the harness modules

/// arbitrary finite f64 of either sign with lo <= |x| <= hi
pub fn any_mag(lo: f64, hi: f64) -> f64 {
    let x: f64 = kani::any();
    kani::assume(x.is_finite());
    let a = if x < 0.0 { -x } else { x };
    kani::assume(a >= lo && a <= hi);
    x
}

/// arbitrary finite f64 with lo <= x <= hi
pub fn any_in(lo: f64, hi: f64) -> f64 {
    let x: f64 = kani::any();
    kani::assume(x.is_finite());
    kani::assume(x >= lo && x <= hi);
    x
}

/// |a - b| <= rel * max(|a|,|b|)  (comparison only, no division)
pub fn close_rel(a: f64, b: f64, rel: f64) -> bool {
    let d = if a > b { a - b } else { b - a };
    let ma = if a < 0.0 { -a } else { a };
    let mb = if b < 0.0 { -b } else { b };
    let m = if ma > mb { ma } else { mb };
    d <= rel * m
}

/// stub for `std::fmt::format`: error paths build their messages with `format!`; formatting is
/// never the subject of a property. Returns a NON-empty string because some callers test the
/// message for emptiness (`TerminationModel::explain_termination` of a combined model).
pub fn stub_format(_args: std::fmt::Arguments<'_>) -> String {
    String::from("x")
}
