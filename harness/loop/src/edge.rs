//! C01 for EDGE-oriented searches: `run_a_star_edge_oriented` (patches the origin and destination
//! edges into the tree of an inner vertex-oriented search) followed by
//! `backtrack::edge_oriented_route`, for an ARBITRARY graph with NV vertices and NE edges, arbitrary
//! origin edge a != destination edge b, and an ARBITRARY inner search result that satisfies the
//! contract of `run_a_star` established by the loop harnesses (module astar): a tree rooted at the
//! head of a whose entries record edges joining parent to vertex with strictly increasing cost, and
//! which contains the tail of b (assume-guarantee; `run_a_star` itself and
//! `EdgeTraversal::forward_traversal` are Kani stubs here).
//! Expected of a returned route: first edge a, last edge b, consecutive edges chain.
//!
//! Two regions of the input space violate this on the unchanged repository (known findings, see
//! known_findings.json; both demonstrated natively through the public API with the real search):
//!   A  the head of b is already in the tree when the destination branch is to be added (it was
//!      discovered by the inner search, or it is the head of a): the branch is not added and the route
//!      ends with whatever edge the inner search recorded for that vertex - the destination edge is lost
//!   B  the tail of a lies on the tree path from the tail of b back to the head of a (or is the
//!      head of b): backtracking stops at the first visit of the tail of a - the origin edge is lost
//! The main harness assumes both regions away and must pass; the witnesses are restricted to them.

use crate::env::*;
use crate::util::*;
use routee_compass_core::algorithm::search::a_star::a_star_algorithm::run_a_star_edge_oriented;
use routee_compass_core::algorithm::search::backtrack;
use routee_compass_core::algorithm::search::direction::Direction;
use routee_compass_core::algorithm::search::edge_traversal::EdgeTraversal;
use routee_compass_core::algorithm::search::search_error::SearchError;
use routee_compass_core::algorithm::search::search_instance::SearchInstance;
use routee_compass_core::algorithm::search::search_result::SearchResult;
use routee_compass_core::algorithm::search::search_tree_branch::SearchTreeBranch;
use routee_compass_core::model::network::{EdgeId, VertexId};
use routee_compass_core::model::traversal::state::state_variable::StateVar;
use routee_compass_core::model::unit::Cost;
use routee_compass_core::util::verif_collections::HashMap as TableMap;

pub static mut SCRIPT: Option<Result<SearchResult, SearchError>> = None;

/// stub for `run_a_star`: hands out the scripted inner result
pub fn stub_run_a_star(_s: VertexId, _t: Option<VertexId>, _d: &Direction, _w: Option<Cost>, _si: &SearchInstance) -> Result<SearchResult, SearchError> {
    unsafe { SCRIPT.take().unwrap() }
}

/// stub for `EdgeTraversal::forward_traversal` (contract: a traversal of that edge, C03 / C07)
pub fn stub_forward(next: EdgeId, _prev: Option<EdgeId>, _state: &[StateVar], _si: &SearchInstance) -> Result<EdgeTraversal, SearchError> {
    Ok(EdgeTraversal { edge_id: next, access_cost: Cost::ZERO, traversal_cost: Cost::new(unsafe { EDGE_COST[next.0] }), result_state: Vec::new() })
}

#[derive(Clone, Copy, PartialEq)]
pub enum Region {
    Main,
    A,
    B,
}

pub fn edge_oriented<const NV: usize, const NE: usize>(region: Region) {
    let mut ei = EnvIn::<NV, NE>::any();
    ei.forward = true;
    ei.has_target = false;
    let (env, si) = build_env::<NV, NE>(ei);
    let a: usize = kani::any();
    let b: usize = kani::any();
    kani::assume(a < NE && b < NE && a != b);
    let (a_src, a_dst, b_src, b_dst) = (env.src[a], env.dst[a], env.src[b], env.dst[b]);

    // the inner search a_dst -> b_src: an arbitrary result satisfying run_a_star's exit contract
    let has: [bool; NV] = kani::any();
    let via: [usize; NV] = kani::any();
    let rank: [u8; NV] = kani::any();
    let inner_ok: bool = kani::any();
    let mut tree: TableMap<VertexId, SearchTreeBranch> = TableMap::new();
    let mut v = 0;
    while v < NV {
        if has[v] {
            let e = via[v];
            kani::assume(e < NE && env.dst[e] == v && v != a_dst);
            let p = env.src[e];
            kani::assume(p == a_dst || has[p]);
            kani::assume(rank[p] < rank[v]);
            tree.insert(
                VertexId(v),
                SearchTreeBranch {
                    terminal_vertex: VertexId(p),
                    edge_traversal: EdgeTraversal { edge_id: EdgeId(e), access_cost: Cost::ZERO, traversal_cost: Cost::new(env.cost[e]), result_state: Vec::new() },
                },
            );
        }
        v += 1;
    }
    if a_dst != b_src {
        // the inner search is only run in this case; when it succeeds the destination's tail is in the tree
        kani::assume(!inner_ok || has[b_src]);
    }
    unsafe {
        SCRIPT = Some(if inner_ok { Ok(SearchResult { tree, iterations: 1 }) } else { Err(SearchError::NoPathExistsBetweenVertices(VertexId(a_dst), VertexId(b_src))) });
    }

    // regions of the two known findings
    let in_a = a_dst != b_src && (has[b_dst] || b_dst == a_dst);
    let mut on_path = false;
    if a_dst != b_src {
        let mut cur = b_src;
        let mut k = 0;
        while k < NV {
            if cur == a_src {
                on_path = true;
            }
            if cur != a_dst && has[cur] {
                cur = env.src[via[cur]];
            }
            k += 1;
        }
    }
    let in_b = b_dst == a_src || on_path;
    match region {
        Region::Main => kani::assume(!in_a && !in_b),
        Region::A => kani::assume(in_a && !in_b),
        Region::B => kani::assume(in_b && !in_a),
    }

    let r = run_a_star_edge_oriented(EdgeId(a), Some(EdgeId(b)), &Direction::Forward, None, &si);
    kani::cover!(r.is_ok(), "the edge-oriented search returns a tree");
    if let Ok(res) = &r {
        let route = backtrack::edge_oriented_route(EdgeId(a), EdgeId(b), &res.tree, si.directed_graph.clone());
        kani::cover!(route.is_ok(), "a route is read off the tree");
        if let Ok(rt) = &route {
            let n = rt.len();
            assert!(n >= 2, "a route between two different edges has at least these two edges");
            if n >= 2 {
                assert!(rt[0].edge_id == EdgeId(a), "the first edge of the route is the origin edge");
                assert!(rt[n - 1].edge_id == EdgeId(b), "the last edge of the route is the destination edge");
                let mut i = 0;
                while i + 1 < NV + 2 {
                    if i + 1 < n {
                        let e1 = rt[i].edge_id.0;
                        let e2 = rt[i + 1].edge_id.0;
                        assert!(e1 < NE && e2 < NE && env.dst[e1] == env.src[e2], "consecutive edges of the route chain");
                    }
                    i += 1;
                }
            }
        }
        std::mem::forget(route);
    } else {
        kani::cover!(!inner_ok, "no path is passed on");
        assert!(!inner_ok, "the edge-oriented search fails only if the inner search does");
    }
    std::mem::forget(r);
    std::mem::forget(si);
}

macro_rules! eo {
    ($name:ident, $unwind:expr, $body:expr) => {
        #[kani::proof]
        #[kani::unwind($unwind)]
        #[kani::stub(std::fmt::format, stub_format)]
        #[kani::stub(routee_compass_core::algorithm::search::a_star::a_star_algorithm::run_a_star, stub_run_a_star)]
        #[kani::stub(routee_compass_core::algorithm::search::edge_traversal::EdgeTraversal::forward_traversal, stub_forward)]
        pub fn $name() {
            $body
        }
    };
}

pub mod q {
    use super::*;
    eo!(main_v3_e3, 7, edge_oriented::<3, 3>(Region::Main));
}
pub mod kf {
    use super::*;
    eo!(destination_edge_lost_v3_e3, 7, edge_oriented::<3, 3>(Region::A));
    eo!(origin_edge_lost_v3_e3, 7, edge_oriented::<3, 3>(Region::B));
}
