//! C12 (app crate part) - a query of the wrong JSON type must become an error, never a panic.
//!
//! `InjectInputPlugin::process` on queries that are not JSON objects. Bool and Number values never
//! touch serde_json's hash map, so the real code is executed as is. (`Null` is turned into an
//! object by serde_json's IndexMut, which allocates an IndexMap -> hashbrown: not encodable.)

use crate::util::*;
use routee_compass::plugin::input::default::inject::inject_plugin::InjectInputPlugin;
use routee_compass::plugin::input::input_plugin::InputPlugin;
use routee_compass::plugin::input::InputPluginError;
use serde_json::Value;

fn inject_on(mut query: Value, overwrite: Option<bool>) {
    let plugin = InjectInputPlugin::new(String::from("k"), Value::Bool(true), overwrite);
    let before_is_object = query.is_object();
    let r = plugin.process(&mut query);
    kani::cover!(r.is_err(), "rejected");
    assert!(!before_is_object);
    // the query is not an object: the only acceptable outcome is an error response
    assert!(
        matches!(r, Err(InputPluginError::UnexpectedQueryStructure(_))),
        "a non-object query is answered with an 'unexpected query structure' error"
    );
    std::mem::forget(r);
    std::mem::forget(query);
    std::mem::forget(plugin);
}

pub mod q {
    use super::*;

    #[kani::proof]
    #[kani::stub(std::fmt::format, stub_format)]
    #[kani::unwind(4)]
    pub fn inject_bool_overwrite_default() {
        inject_on(Value::Bool(kani::any()), None)
    }
    #[kani::proof]
    #[kani::stub(std::fmt::format, stub_format)]
    #[kani::unwind(4)]
    pub fn inject_bool_overwrite() {
        inject_on(Value::Bool(kani::any()), Some(true))
    }
    #[kani::proof]
    #[kani::stub(std::fmt::format, stub_format)]
    #[kani::unwind(4)]
    pub fn inject_bool_no_overwrite() {
        inject_on(Value::Bool(kani::any()), Some(false))
    }
    #[kani::proof]
    #[kani::stub(std::fmt::format, stub_format)]
    #[kani::unwind(4)]
    pub fn inject_number_overwrite() {
        let n: u64 = kani::any();
        inject_on(Value::Number(n.into()), Some(true))
    }
    #[kani::proof]
    #[kani::stub(std::fmt::format, stub_format)]
    #[kani::unwind(4)]
    pub fn inject_number_no_overwrite() {
        let n: u64 = kani::any();
        inject_on(Value::Number(n.into()), Some(false))
    }
}
