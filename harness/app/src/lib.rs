#![allow(dead_code, unused_imports, unused_macros, static_mut_refs, clippy::all)]
#[cfg(kani)]
mod util;
#[cfg(kani)]
mod c04;
#[cfg(kani)]
mod c12;
#[cfg(kani)]
mod c20;
