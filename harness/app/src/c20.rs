//! C20 (attempt) - route geometry is the concatenation of the route's edge geometries, in route
//! order; a missing geometry is an error, never a shortened or shifted geometry.
//!
//! `traversal_ops::{create_route_linestring, create_edge_geometry}` + `geo_io_utils::
//! concat_linestrings`. The route's edge-id SEQUENCE is concrete per harness (a symbolic id makes
//! the cloned geometry's length symbolic: 420 s probe timeout); all coordinates are symbolic.
//! Every other part of the property is JSON / GeoJSON / WKT / WKB rendering: not covered.

use crate::util::*;
use geo::{Coord, LineString};
use routee_compass::plugin::output::default::traversal::traversal_ops;
use routee_compass_core::algorithm::search::edge_traversal::EdgeTraversal;
use routee_compass_core::model::network::EdgeId;
use routee_compass_core::model::unit::Cost;

const NG: usize = 3;
const NP: usize = 2;

fn et(id: usize) -> EdgeTraversal {
    EdgeTraversal { edge_id: EdgeId(id), access_cost: Cost::ZERO, traversal_cost: Cost::ZERO, result_state: Vec::new() }
}

fn geoms(c: &[[[f32; 2]; NP]; NG]) -> [LineString<f32>; NG] {
    let mk = |g: usize| LineString::new(vec![Coord { x: c[g][0][0], y: c[g][0][1] }, Coord { x: c[g][1][0], y: c[g][1][1] }]);
    [mk(0), mk(1), mk(2)]
}

fn route_geometry(ids: &[usize]) {
    let c: [[[f32; 2]; NP]; NG] = kani::any();
    let table = geoms(&c);
    let mut route = Vec::with_capacity(3);
    let mut i = 0;
    while i < ids.len() {
        route.push(et(ids[i]));
        i += 1;
    }
    let r = traversal_ops::create_route_linestring(&route, &table);
    let mut all_in = true;
    let mut i = 0;
    while i < ids.len() {
        if ids[i] >= NG {
            all_in = false;
        }
        i += 1;
    }
    kani::cover!(true, "reached");
    if all_in {
        assert!(r.is_ok(), "every edge has a geometry: the route geometry is produced");
        if let Ok(ls) = &r {
            assert!(ls.0.len() == ids.len() * NP, "all points of all edges, none dropped");
            let mut i = 0;
            while i < ids.len() {
                let mut p = 0;
                while p < NP {
                    let got = ls.0[i * NP + p];
                    let want = c[ids[i]][p];
                    // bit-equal (NaN coordinates included)
                    assert!(got.x.to_bits() == want[0].to_bits() && got.y.to_bits() == want[1].to_bits(),
                            "point k of the route geometry is point k of the concatenated edge geometries, in route order");
                    p += 1;
                }
                i += 1;
            }
        }
    } else {
        assert!(r.is_err(), "a missing geometry is an error, never a shortened geometry");
    }
    std::mem::forget(r);
    std::mem::forget(route);
    std::mem::forget(table);
}

macro_rules! routes {
    ($($name:ident => [$($id:expr),*]),*) => {
        $(
            #[kani::proof]
            #[kani::stub(std::fmt::format, stub_format)]
            #[kani::unwind(8)]
            pub fn $name() { route_geometry(&[$($id),*]) }
        )*
    };
}

pub mod q {
    use super::*;
    routes!(route_1 => [1], route_2_0 => [2, 0], route_1_1 => [1, 1], route_0_3_missing => [0, 3], route_7_missing => [7]);
}

pub mod t {
    use super::*;
    routes!(route_0_1_2 => [0, 1, 2], route_2_1_0 => [2, 1, 0], route_0_0 => [0, 0], route_0_1 => [0, 1], route_1_2 => [1, 2],
            route_2_2 => [2, 2], route_1_0 => [1, 0], route_3_0_missing => [3, 0], route_1_2_5_missing => [1, 2, 5], route_empty => []);
}
