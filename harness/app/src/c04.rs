//! C04 - an edge is usable only if the vehicle passes every restriction on it, compared after
//! unit conversion; combined models are a conjunction.
//!
//! `VehicleRestriction::valid`: one harness per (restriction kind, vehicle unit, limit unit); the
//! vehicle quantity and the limit are symbolic. Oracle: the PHYSICAL conversion factor (SI table
//! below). Inside a band of 0.1 percent around equality either answer is accepted - that band is
//! the conversion table's own tolerance (property C09).

use crate::util::*;
use routee_compass::app::compass::config::frontier_model::combined::combined_model::CombinedFrontierModel;
use routee_compass::app::compass::config::frontier_model::vehicle_restrictions::vehicle_parameters::VehicleParameters;
use routee_compass::app::compass::config::frontier_model::vehicle_restrictions::vehicle_restriction::VehicleRestriction;
use routee_compass_core::model::frontier::frontier_model::FrontierModel;
use routee_compass_core::model::frontier::frontier_model_error::FrontierModelError;
use routee_compass_core::model::network::Edge;
use routee_compass_core::model::state::state_model::StateModel;
use routee_compass_core::model::traversal::state::state_variable::StateVar;
use routee_compass_core::model::unit::{Distance, DistanceUnit, Weight, WeightUnit};
use std::sync::Arc;

const TOL: f64 = 1e-3;

/// a vehicle whose irrelevant dimensions are arbitrary too
fn any_vehicle(du: DistanceUnit, wu: WeightUnit) -> VehicleParameters {
    VehicleParameters {
        height: (Distance::new(any_in(1e-3, 1e6)), du),
        width: (Distance::new(any_in(1e-3, 1e6)), du),
        total_length: (Distance::new(any_in(1e-3, 1e6)), du),
        trailer_length: (Distance::new(any_in(1e-3, 1e6)), du),
        total_weight: (Weight::new(any_in(1e-3, 1e6)), wu),
        number_of_axles: kani::any(),
    }
}

/// decides `valid` against quantity * k <= limit outside the tolerance band
fn check_band(valid: bool, q: f64, k: f64, limit: f64) {
    let lo = q * (k * (1.0 - TOL));
    let hi = q * (k * (1.0 + TOL));
    kani::cover!(hi <= limit, "clearly within the limit");
    kani::cover!(lo > limit, "clearly over the limit");
    if hi <= limit {
        assert!(valid, "a vehicle clearly within the limit may use the edge");
    }
    if lo > limit {
        assert!(!valid, "a vehicle clearly over the limit must not use the edge");
    }
}

macro_rules! dist_restriction {
    ($name:ident, $kind:ident, $field:ident, $vu:expr, $vk:expr, $lu:expr, $lk:expr) => {
        #[kani::proof]
        pub fn $name() {
            let mut v = any_vehicle($vu, WeightUnit::Kg);
            let q = any_in(1e-3, 1e6);
            v.$field = (Distance::new(q), $vu);
            let limit = any_in(1e-3, 1e6);
            let r = VehicleRestriction::$kind((Distance::new(limit), $lu));
            let valid = r.valid(&v);
            check_band(valid, q, $vk / $lk, limit);
        }
    };
}

macro_rules! weight_restriction {
    ($name:ident, $vu:expr, $vk:expr, $lu:expr, $lk:expr) => {
        #[kani::proof]
        pub fn $name() {
            let mut v = any_vehicle(DistanceUnit::Meters, $vu);
            let q = any_in(1e-3, 1e6);
            v.total_weight = (Weight::new(q), $vu);
            let limit = any_in(1e-3, 1e6);
            let r = VehicleRestriction::MaximumTotalWeight((Weight::new(limit), $lu));
            let valid = r.valid(&v);
            check_band(valid, q, $vk / $lk, limit);
        }
    };
}

macro_rules! axle_restriction {
    ($name:ident, $vu:expr, $vk:expr, $lu:expr, $lk:expr, $axles:expr) => {
        #[kani::proof]
        pub fn $name() {
            let mut v = any_vehicle(DistanceUnit::Meters, $vu);
            let q = any_in(1e-3, 1e6);
            v.total_weight = (Weight::new(q), $vu);
            v.number_of_axles = $axles;
            let limit = any_in(1e-3, 1e6);
            let r = VehicleRestriction::MaximumWeightPerAxle((Weight::new(limit), $lu));
            let valid = r.valid(&v);
            check_band(valid, q, $vk / $lk / ($axles as f64), limit);
        }
    };
}

macro_rules! axle0_restriction {
    ($name:ident, $vu:expr, $lu:expr) => {
        #[kani::proof]
        pub fn $name() {
            let mut v = any_vehicle(DistanceUnit::Meters, $vu);
            let q = any_in(1e-3, 1e6);
            v.total_weight = (Weight::new(q), $vu);
            v.number_of_axles = 0;
            let limit = any_in(1e-3, 1e6);
            let r = VehicleRestriction::MaximumWeightPerAxle((Weight::new(limit), $lu));
            let valid = r.valid(&v);
            kani::cover!(true, "reaches the assertion");
            assert!(!valid, "a vehicle without axles never passes a per-axle limit");
        }
    };
}

include!("c04_gen.rs");

// ---------------------------------------------------------------------------------------------
// combined model: conjunction of harness-defined inner models returning arbitrary answers

/// 0 = Ok(true), 1 = Ok(false), 2 = Err
struct Scripted {
    answer: u8,
}
impl FrontierModel for Scripted {
    fn valid_frontier(
        &self,
        _edge: &Edge,
        _state: &[StateVar],
        _previous_edge: Option<&Edge>,
        _state_model: &StateModel,
    ) -> Result<bool, FrontierModelError> {
        match self.answer {
            0 => Ok(true),
            1 => Ok(false),
            _ => Err(FrontierModelError::FrontierModelError(String::new())),
        }
    }
}

fn any_edge() -> Edge {
    Edge::new(kani::any(), kani::any(), kani::any(), 1.0)
}

fn combined_n(n: usize) {
    let answers: [u8; 3] = kani::any();
    kani::assume(answers[0] <= 2 && answers[1] <= 2 && answers[2] <= 2);
    let mut inner: Vec<Arc<dyn FrontierModel>> = Vec::with_capacity(3);
    let mut i = 0;
    while i < n {
        inner.push(Arc::new(Scripted { answer: answers[i] }));
        i += 1;
    }
    let m = CombinedFrontierModel { inner_models: inner };
    let sm = StateModel::new(vec![]);
    let e = any_edge();
    let p = any_edge();
    let has_prev: bool = kani::any();
    let r = m.valid_frontier(&e, &[], if has_prev { Some(&p) } else { None }, &sm);
    // position of the first model that does not say Ok(true)
    let mut first_bad: Option<usize> = None;
    let mut i = 0;
    while i < n {
        if first_bad.is_none() && answers[i] != 0 {
            first_bad = Some(i);
        }
        i += 1;
    }
    kani::cover!(first_bad.is_none(), "all permit");
    kani::cover!(n == 0 || first_bad.is_some(), "one forbids or fails");
    match first_bad {
        None => assert!(matches!(r, Ok(true)), "usable when every model permits it"),
        Some(i) if answers[i] == 1 => assert!(matches!(r, Ok(false)), "not usable as soon as one model forbids it"),
        Some(_) => assert!(r.is_err(), "an inner error is propagated, never turned into 'usable'"),
    }
    // in no case is the edge usable while some model forbids it
    let mut any_false = false;
    let mut i = 0;
    while i < n {
        if answers[i] == 1 {
            any_false = true;
        }
        i += 1;
    }
    if any_false {
        assert!(!matches!(r, Ok(true)), "never usable while a model forbids it");
    }
    std::mem::forget(r);
    std::mem::forget(m);
    std::mem::forget(sm);
}

pub mod qc {
    use super::*;
    #[kani::proof]
    #[kani::unwind(5)]
    #[kani::stub(std::hash::RandomState::new, fixed_random_state)]
    pub fn combined_0() { combined_n(0) }
    #[kani::proof]
    #[kani::unwind(5)]
    #[kani::stub(std::hash::RandomState::new, fixed_random_state)]
    pub fn combined_1() { combined_n(1) }
    #[kani::proof]
    #[kani::unwind(5)]
    #[kani::stub(std::hash::RandomState::new, fixed_random_state)]
    pub fn combined_2() { combined_n(2) }
    #[kani::proof]
    #[kani::unwind(5)]
    #[kani::stub(std::hash::RandomState::new, fixed_random_state)]
    pub fn combined_3() { combined_n(3) }
}
