#!/usr/bin/env python3
"""usage: seed_meta.py <seed-id> <property> <confirm-log> <eval-log> <check-cmd>
writes seeded/<seed-id>/meta.json from the author's notes.json, my confirmation log and the check's log"""
import json, os, re, sys
sid, prop, confirm, evallog, cmd = sys.argv[1:6]
d = os.path.join(os.path.dirname(os.path.dirname(os.path.abspath(__file__))), "seeded", sid)
notes = json.load(open(os.path.join(d, "notes.json"))) if os.path.exists(os.path.join(d, "notes.json")) else {}
c = open(confirm).read() if os.path.exists(confirm) else ""
e = open(evallog, errors="replace").read() if os.path.exists(evallog) else ""
rc = re.search(r"RC=(\d+)", e)
summary = re.findall(r"^\[check\].*$", e, re.M)
viol = re.findall(r"^VIOLATION.*$", e, re.M)
failing = re.findall(r"failing harness ([\w:]+): (.*)", e)
inconc = re.findall(r"^INCONCLUSIVE.*$", e, re.M)
rcv = int(rc.group(1)) if rc else None
result = {1: "detected (VIOLATION reported, counterexample reproduced natively)", 0: "not detected (check passes: outside the check's claim)",
          2: "inconclusive (no verdict / counterexample did not reproduce)"}.get(rcv, "not run")
meta = {
    "property": prop,
    "breaks": notes.get("breaks"),
    "needs_to_manifest": notes.get("needs_to_manifest"),
    "why_tests_pass": notes.get("why_tests_pass"),
    "author": "independent sub-agent given only the property text and a scratch worktree",
    "author_commands": notes.get("commands"),
    "confirmed_by_me": {
        "how": "tools/seed_confirm.sh in the scratch worktree: demo passes without the patch, fails with it, existing suite (83 incl. doc tests) passes with it",
        "log": [l for l in c.splitlines() if l.startswith(("==", "test result", "passed"))],
        "result": "confirmed" if "passed 83 failed 0" in c and "FAILED" in c else "see log",
    },
    "detection": {"check_cmd": cmd + " (patch applied to /repo, reverted afterwards)", "exit_code": rcv, "result": result,
                  "failing_harnesses": [{"harness": h, "why": w[:300]} for h, w in failing], "violation_lines": viol,
                  "inconclusive": inconc[:5], "summary_line": summary},
}
json.dump(meta, open(os.path.join(d, "meta.json"), "w"), indent=1)
print(sid, result)
