#!/bin/bash
# usage: seed_eval.sh <prop> <patch.diff> [tier] [check args...]  - applies the patch to /repo, runs the check, reverts.
# the evidence file of the property is saved and restored: evidence under /verif always describes the UNCHANGED tree
set -u
P=$1; PATCH=$2; TIER=${3:-quick}; shift; shift; shift 2>/dev/null
cd /repo && git diff --quiet || { echo "/repo not clean"; exit 2; }
cp /verif/evidence/$P.json /tmp/evidence_keep_$P.json 2>/dev/null
git -C /repo apply "$PATCH" || { echo "patch does not apply"; exit 2; }
cd /verif && ./check "$P" --tier "$TIER" "$@" > /tmp/seed_eval_$P.log 2>&1; RC=$?
git -C /repo checkout -- .
cp /verif/evidence/$P.json /tmp/evidence_seeded_$P.json 2>/dev/null
[ -f /tmp/evidence_keep_$P.json ] && cp /tmp/evidence_keep_$P.json /verif/evidence/$P.json
tail -8 /tmp/seed_eval_$P.log
echo "RC=$RC"
