#!/bin/bash
# usage: seed_eval.sh <prop> <patch.diff> [tier]   - applies the patch to /repo, runs the check, reverts
set -u
P=$1; PATCH=$2; TIER=${3:-quick}
cd /repo && git diff --quiet || { echo "/repo not clean"; exit 2; }
git -C /repo apply "$PATCH" || { echo "patch does not apply"; exit 2; }
cd /verif && ./check "$P" --tier "$TIER" > /tmp/seed_eval_$P.log 2>&1; RC=$?
git -C /repo checkout -- .
tail -8 /tmp/seed_eval_$P.log
echo "RC=$RC"
