#!/bin/bash
# usage: seed_confirm.sh <worktree> <changedir>
# confirms a seeded change in its scratch worktree: (1) demo passes without the patch,
# (2) demo fails with the patch, (3) the existing suite passes with the patch (demo removed)
set -u
WT=$1; CH=$2
cd "$WT" || exit 2
git checkout -q -- . ; git clean -fdq rust/*/tests 2>/dev/null
DEMO_PATH=$(head -1 "$CH/demo_path.txt" | sed 's/^[^r]*\(rust\/[^ ]*\.rs\).*/\1/')
[ -z "$DEMO_PATH" ] && { echo "no demo path"; exit 2; }
CRATE=$(echo "$DEMO_PATH" | sed 's/rust\/\([^/]*\)\/.*/\1/')
TESTNAME=$(basename "$DEMO_PATH" .rs)
mkdir -p "$(dirname "$DEMO_PATH")"; cp "$CH/demo_test.rs" "$DEMO_PATH"
echo "== demo without patch ($CRATE --test $TESTNAME)"
(cd rust && cargo test --offline -p "$CRATE" --test "$TESTNAME" 2>&1 | grep -E "^test result|error(\[|:)" | head -5)
git apply "$CH/patch.diff" || { echo "patch does not apply"; exit 2; }
echo "== demo with patch"
(cd rust && cargo test --offline -p "$CRATE" --test "$TESTNAME" 2>&1 | grep -E "^test result|panicked|error(\[|:)" | head -8)
rm -f "$DEMO_PATH"
echo "== suite with patch"
(cd rust && cargo test --workspace --no-fail-fast --offline 2>&1 | grep -E "^test result" | awk '{p+=$4; f+=$6} END {print "passed",p,"failed",f}')
git checkout -q -- . ; git clean -fdq rust/*/tests 2>/dev/null
