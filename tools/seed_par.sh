#!/bin/bash
# usage: seed_par.sh <seed-id> <harness-filter>...   - evaluates a seeded change WITHOUT touching /repo:
# git worktree of /repo HEAD under /tmp with the patch applied, scratch copy of harness/loop pointed at it,
# own target dir; prints Kani's verdicts. (Official detection records come from ./check via seed_eval.sh.)
set -u
SID=$1; shift
WT=/tmp/seedwt_$SID; HC=/tmp/seedhc_$SID; TD=/tmp/seedtd_$SID
git -C /repo worktree remove --force $WT 2>/dev/null; rm -rf $HC $TD
git -C /repo worktree add -q --detach $WT HEAD || exit 2
git -C $WT apply /verif/seeded/$SID/patch.diff || { echo "patch does not apply"; exit 2; }
cp -r /verif/harness/loop $HC; rm -rf $HC/target
sed -i "s#/repo/rust/#$WT/rust/#" $HC/Cargo.toml
cp /repo/rust/Cargo.lock $HC/Cargo.lock
python3 /verif/lib/slice_loop.py $WT $HC/a_star_step.rs || { echo "SLICE ERROR"; exit 2; }
ARGS=""; for f in "$@"; do ARGS="$ARGS --harness $f"; done
cd $HC && VERIF_A_STAR_STEP=$HC/a_star_step.rs CARGO_NET_OFFLINE=true timeout 3000 cargo kani --target-dir $TD -Z unstable-options -Z stubbing --output-format terse --harness-timeout 2400s -j 4 $ARGS > /tmp/seedpar_$SID.log 2>&1
grep -a "Checking harness\|VERIFICATION:\|Failed Checks\|^error" -A1 /tmp/seedpar_$SID.log | grep -v Stub | head -40
git -C /repo worktree remove --force $WT; rm -rf $HC $TD
