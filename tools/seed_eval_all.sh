#!/bin/bash
# evaluates every seeded change against the quick tier of its property's check and records the
# outcome in seeded/<id>/meta.json ("detection"). /repo must be clean; it is restored after each.
cd /verif
for d in seeded/*/; do
  id=$(basename $d); prop=${id%-*}
  [ -n "${ONLY:-}" ] && [[ ! " $ONLY " =~ " $id " ]] && continue
  echo "##### $id (check $prop)"
  ./tools/seed_eval.sh $prop /verif/$d/patch.diff quick > /tmp/seed_eval_one.log 2>&1
  rc=$(grep -o "RC=[0-9]*" /tmp/seed_eval_one.log | tail -1 | cut -d= -f2)
  python3 - "$d" "$rc" <<'PY'
import json,sys,re
d,rc=sys.argv[1],sys.argv[2]
log=open('/tmp/seed_eval_one.log').read()
m=json.load(open(d+'/meta.json'))
failing=re.findall(r"failing harness ([\w:]+): (.*)",log)
m['detection']={"check_cmd":"./check %s --tier quick (patch applied to /repo, reverted afterwards)"%m['property'],
  "exit_code":int(rc) if rc.isdigit() else None,
  "result":"DETECTED (VIOLATION, replayed natively)" if rc=="1" else ("not detected (check passes: outside the check's claim)" if rc=="0" else "inconclusive"),
  "failing_harnesses":[{"harness":h,"why":w[:200]} for h,w in failing][:6],
  "summary_line":[l for l in log.splitlines() if l.startswith('[check]')][-1:] }
json.dump(m,open(d+'/meta.json','w'),indent=1)
print(m['detection']['result'], [h for h,_ in failing][:3])
PY
done
